/*
 * faultfs.so — LD_PRELOAD syscall fault seam for world B (the shipped `lace` binary as a process).
 *
 * Watches file descriptors that belong to paths under $FAULTFS_DIR. Every *mutating* call on
 * them (open for writing, write, rename, unlink, ftruncate, fsync) gets the next ordinal
 * 1,2,3,...; every read on them gets the next read ordinal. $FAULTFS_PLAN is a ';'-separated
 * list of rules:
 *
 *     <k>:errno=<n>     mutating call k fails with errno n, nothing happens
 *     <k>:short=<n>     write k really writes at most n bytes and returns that count
 *     <k>:sticky=<n>    mutating call k and all later ones fail with errno n
 *     <k>:kill=0        the process is killed (SIGKILL) right before mutating call k
 *     <k>:kill=1        the process is killed right after mutating call k has been carried out
 *     r<k>:errno=<n>    read k fails with errno n
 *     r<k>:short=<n>    read k returns at most n bytes
 *
 * Scheduling: with $FAULTFS_GATE="<request fd>,<grant fd>" every mutating call first announces
 * itself ("<ordinal> <op> <what>\n" on the request fd) and then blocks until the harness grants it
 * one byte on the grant fd. With several processes gated this way the harness, not the kernel,
 * decides in which order their file-system calls happen; one schedule is one interleaving.
 *
 * Faults are addressed by ordinal of call, not by "the j-th word", so a plan stays meaningful
 * when the program under test is restructured (buffered writes, temporary file + rename).
 * Each counted call and each injected fault is appended to $FAULTFS_LOG (if set).
 */
#define _GNU_SOURCE
#include <dlfcn.h>
#include <errno.h>
#include <fcntl.h>
#include <signal.h>
#include <stdarg.h>
#include <stdio.h>
#include <stdlib.h>
#include <string.h>
#include <sys/stat.h>
#include <sys/types.h>
#include <unistd.h>

#define MAX_FD 1024
#define MAX_RULES 32

static int watched_w[MAX_FD];
static int watched_r[MAX_FD];
static long mut_ordinal = 0;
static long read_ordinal = 0;
static long sticky_errno = 0;
static int initialised = 0;
static const char *dir = NULL;
static size_t dir_len = 0;
static int log_fd = -1;
static int kill_after_call = 0;
static int gate_req = -1;
static int gate_ack = -1;

struct rule {
    int is_read;
    long k;
    int kind; /* 1 errno, 2 short, 3 sticky, 4 kill */
    long n;
};
static struct rule rules[MAX_RULES];
static int n_rules = 0;

static ssize_t (*real_write)(int, const void *, size_t);
static ssize_t (*real_read)(int, void *, size_t);
static int (*real_open)(const char *, int, ...);
static int (*real_open64)(const char *, int, ...);
static int (*real_openat)(int, const char *, int, ...);
static int (*real_close)(int);
static int (*real_rename)(const char *, const char *);
static int (*real_unlink)(const char *);
static int (*real_ftruncate)(int, off_t);
static int (*real_fsync)(int);
static int (*real_fdatasync)(int);

static void init(void) {
    if (initialised) return;
    initialised = 1;
    real_write = dlsym(RTLD_NEXT, "write");
    real_read = dlsym(RTLD_NEXT, "read");
    real_open = dlsym(RTLD_NEXT, "open");
    real_open64 = dlsym(RTLD_NEXT, "open64");
    real_openat = dlsym(RTLD_NEXT, "openat");
    real_close = dlsym(RTLD_NEXT, "close");
    real_rename = dlsym(RTLD_NEXT, "rename");
    real_unlink = dlsym(RTLD_NEXT, "unlink");
    real_ftruncate = dlsym(RTLD_NEXT, "ftruncate");
    real_fsync = dlsym(RTLD_NEXT, "fsync");
    real_fdatasync = dlsym(RTLD_NEXT, "fdatasync");
    dir = getenv("FAULTFS_DIR");
    dir_len = dir ? strlen(dir) : 0;
    const char *log = getenv("FAULTFS_LOG");
    if (log && real_open) {
        log_fd = real_open(log, O_WRONLY | O_CREAT | O_APPEND | O_CLOEXEC, 0644);
    }
    const char *gate = getenv("FAULTFS_GATE");
    if (gate) {
        int a = -1, b = -1;
        if (sscanf(gate, "%d,%d", &a, &b) == 2) {
            gate_req = a;
            gate_ack = b;
        }
    }
    const char *plan = getenv("FAULTFS_PLAN");
    if (plan) {
        char *copy = strdup(plan);
        char *save = NULL;
        for (char *tok = strtok_r(copy, ";", &save); tok && n_rules < MAX_RULES; tok = strtok_r(NULL, ";", &save)) {
            struct rule r;
            memset(&r, 0, sizeof r);
            if (*tok == 'r') {
                r.is_read = 1;
                tok++;
            }
            char *colon = strchr(tok, ':');
            if (!colon) continue;
            *colon = 0;
            r.k = atol(tok);
            char *eq = strchr(colon + 1, '=');
            if (!eq) continue;
            *eq = 0;
            r.n = atol(eq + 1);
            if (!strcmp(colon + 1, "errno")) r.kind = 1;
            else if (!strcmp(colon + 1, "short")) r.kind = 2;
            else if (!strcmp(colon + 1, "sticky")) r.kind = 3;
            else if (!strcmp(colon + 1, "kill")) r.kind = 4;
            else continue;
            rules[n_rules++] = r;
        }
        free(copy);
    }
}

static void logf_(const char *fmt, ...) {
    if (log_fd < 0 || !real_write) return;
    char buf[512];
    va_list ap;
    va_start(ap, fmt);
    int n = vsnprintf(buf, sizeof buf, fmt, ap);
    va_end(ap);
    if (n > 0) real_write(log_fd, buf, (size_t)(n < (int)sizeof buf ? n : (int)sizeof buf - 1));
}

static int under_dir(const char *path) {
    if (!dir || !path) return 0;
    return strncmp(path, dir, dir_len) == 0;
}

static struct rule *find_rule(int is_read, long k) {
    for (int i = 0; i < n_rules; i++)
        if (rules[i].is_read == is_read && rules[i].k == k) return &rules[i];
    return NULL;
}

/* Returns 0 to proceed normally, or an errno to fail with. *short_n >= 0 limits a write. */
static int mutating(const char *op, const char *what, long *short_n) {
    mut_ordinal++;
    if (short_n) *short_n = -1;
    logf_("m %ld %s %s\n", mut_ordinal, op, what ? what : "");
    if (gate_req >= 0 && real_write && real_read) {
        /* Park here until the scheduler lets this call happen */
        char line[256];
        int n = snprintf(line, sizeof line, "%ld %s %s\n", mut_ordinal, op, what ? what : "");
        if (n > 0) real_write(gate_req, line, (size_t)(n < (int)sizeof line ? n : (int)sizeof line - 1));
        char grant = 0;
        while (real_read(gate_ack, &grant, 1) < 0 && errno == EINTR) {
        }
    }
    if (sticky_errno) {
        logf_("F %ld sticky errno=%ld\n", mut_ordinal, sticky_errno);
        return (int)sticky_errno;
    }
    struct rule *r = find_rule(0, mut_ordinal);
    if (!r) return 0;
    if (r->kind == 1) {
        logf_("F %ld errno=%ld\n", mut_ordinal, r->n);
        return (int)r->n;
    }
    if (r->kind == 3) {
        sticky_errno = r->n;
        logf_("F %ld sticky errno=%ld\n", mut_ordinal, r->n);
        return (int)r->n;
    }
    if (r->kind == 2 && short_n) {
        *short_n = r->n;
        logf_("F %ld short=%ld\n", mut_ordinal, r->n);
    }
    if (r->kind == 4) {
        logf_("F %ld kill=%ld\n", mut_ordinal, r->n);
        if (r->n == 0) {
            kill(getpid(), SIGKILL);
            for (;;) pause();
        }
        kill_after_call = 1;
    }
    return 0;
}

/* Crash point right after a mutating call has been carried out. */
static void crash_point(void) {
    if (kill_after_call) {
        kill(getpid(), SIGKILL);
        for (;;) pause();
    }
}

static int after_open(int fd, const char *path, int flags) {
    if (fd >= 0 && fd < MAX_FD) {
        int acc = flags & O_ACCMODE;
        watched_w[fd] = (acc == O_WRONLY || acc == O_RDWR);
        watched_r[fd] = (acc == O_RDONLY || acc == O_RDWR);
        (void)path;
    }
    return fd;
}

static int is_write_open(int flags) {
    int acc = flags & O_ACCMODE;
    return acc == O_WRONLY || acc == O_RDWR || (flags & (O_CREAT | O_TRUNC));
}

int open(const char *path, int flags, ...) {
    init();
    mode_t mode = 0;
    if (flags & (O_CREAT | O_TMPFILE)) {
        va_list ap;
        va_start(ap, flags);
        mode = va_arg(ap, mode_t);
        va_end(ap);
    }
    if (under_dir(path)) {
        if (is_write_open(flags)) {
            int e = mutating("open", path, NULL);
            if (e) {
                errno = e;
                return -1;
            }
        }
        int fd = after_open(real_open(path, flags, mode), path, flags);
        crash_point();
        return fd;
    }
    return real_open(path, flags, mode);
}

int open64(const char *path, int flags, ...) {
    init();
    mode_t mode = 0;
    if (flags & (O_CREAT | O_TMPFILE)) {
        va_list ap;
        va_start(ap, flags);
        mode = va_arg(ap, mode_t);
        va_end(ap);
    }
    if (under_dir(path)) {
        if (is_write_open(flags)) {
            int e = mutating("open", path, NULL);
            if (e) {
                errno = e;
                return -1;
            }
        }
        int fd = after_open(real_open64(path, flags, mode), path, flags);
        crash_point();
        return fd;
    }
    return real_open64(path, flags, mode);
}

int openat(int dirfd, const char *path, int flags, ...) {
    init();
    mode_t mode = 0;
    if (flags & (O_CREAT | O_TMPFILE)) {
        va_list ap;
        va_start(ap, flags);
        mode = va_arg(ap, mode_t);
        va_end(ap);
    }
    if (under_dir(path)) {
        if (is_write_open(flags)) {
            int e = mutating("open", path, NULL);
            if (e) {
                errno = e;
                return -1;
            }
        }
        int fd = after_open(real_openat(dirfd, path, flags, mode), path, flags);
        crash_point();
        return fd;
    }
    return real_openat(dirfd, path, flags, mode);
}

int creat(const char *path, mode_t mode) {
    return open(path, O_CREAT | O_WRONLY | O_TRUNC, mode);
}

int close(int fd) {
    init();
    if (fd >= 0 && fd < MAX_FD) {
        watched_w[fd] = 0;
        watched_r[fd] = 0;
    }
    return real_close(fd);
}

ssize_t write(int fd, const void *buf, size_t count) {
    init();
    if (fd >= 0 && fd < MAX_FD && watched_w[fd]) {
        long short_n = -1;
        char what[32];
        snprintf(what, sizeof what, "fd=%d n=%zu", fd, count);
        int e = mutating("write", what, &short_n);
        if (e) {
            errno = e;
            return -1;
        }
        if (short_n >= 0 && (size_t)short_n < count) count = (size_t)short_n;
        ssize_t done = real_write(fd, buf, count);
        crash_point();
        return done;
    }
    return real_write(fd, buf, count);
}

ssize_t read(int fd, void *buf, size_t count) {
    init();
    if (fd >= 0 && fd < MAX_FD && watched_r[fd]) {
        read_ordinal++;
        logf_("r %ld read fd=%d n=%zu\n", read_ordinal, fd, count);
        struct rule *r = find_rule(1, read_ordinal);
        if (r) {
            if (r->kind == 1 || r->kind == 3) {
                logf_("F r%ld errno=%ld\n", read_ordinal, r->n);
                errno = (int)r->n;
                return -1;
            }
            if (r->kind == 2 && (size_t)r->n < count) {
                logf_("F r%ld short=%ld\n", read_ordinal, r->n);
                count = (size_t)r->n;
            }
        }
    }
    return real_read(fd, buf, count);
}

int rename(const char *from, const char *to) {
    init();
    if (under_dir(from) || under_dir(to)) {
        int e = mutating("rename", to, NULL);
        if (e) {
            errno = e;
            return -1;
        }
        int rc = real_rename(from, to);
        crash_point();
        return rc;
    }
    return real_rename(from, to);
}

int unlink(const char *path) {
    init();
    if (under_dir(path)) {
        int e = mutating("unlink", path, NULL);
        if (e) {
            errno = e;
            return -1;
        }
        int rc = real_unlink(path);
        crash_point();
        return rc;
    }
    return real_unlink(path);
}

int ftruncate(int fd, off_t length) {
    init();
    if (fd >= 0 && fd < MAX_FD && watched_w[fd]) {
        int e = mutating("ftruncate", "", NULL);
        if (e) {
            errno = e;
            return -1;
        }
    }
    return real_ftruncate(fd, length);
}

int fsync(int fd) {
    init();
    if (fd >= 0 && fd < MAX_FD && watched_w[fd]) {
        int e = mutating("fsync", "", NULL);
        if (e) {
            errno = e;
            return -1;
        }
    }
    return real_fsync(fd);
}

int fdatasync(int fd) {
    init();
    if (fd >= 0 && fd < MAX_FD && watched_w[fd]) {
        int e = mutating("fdatasync", "", NULL);
        if (e) {
            errno = e;
            return -1;
        }
    }
    return real_fdatasync(fd);
}
