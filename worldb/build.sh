#!/bin/sh
# Builds what world B needs: the shipped `lace` binary (guard OFF) from /repo's current tree and
# the syscall fault shim.
set -u
VERIF_DIR="$(cd "$(dirname "$0")/.." && pwd)"
export CARGO_NET_OFFLINE=true
mkdir -p "$VERIF_DIR/sim/target/cli"
if ! CARGO_PROFILE_DEV_DEBUG=false cargo build --offline -q --manifest-path /repo/Cargo.toml --bin lace --target-dir "$VERIF_DIR/sim/target/cli" 2>"$VERIF_DIR/sim/target/cli-build.log"; then
    echo "harness error: build of the lace binary failed" >&2
    tail -40 "$VERIF_DIR/sim/target/cli-build.log" >&2
    exit 2
fi
if [ "${VERIF_CLI_RELEASE:-}" = 1 ]; then
    if ! cargo build --release --offline -q --manifest-path /repo/Cargo.toml --bin lace --target-dir "$VERIF_DIR/sim/target/cli" 2>"$VERIF_DIR/sim/target/cli-build.log"; then
        echo "harness error: release build of the lace binary failed" >&2
        tail -40 "$VERIF_DIR/sim/target/cli-build.log" >&2
        exit 2
    fi
fi
SHIM_SRC="$VERIF_DIR/worldb/faultfs.c"
SHIM_OUT="$VERIF_DIR/sim/target/faultfs.so"
if [ -f "$SHIM_SRC" ]; then
    if [ ! -f "$SHIM_OUT" ] || [ "$SHIM_SRC" -nt "$SHIM_OUT" ]; then
        if ! clang -O1 -shared -fPIC -o "$SHIM_OUT" "$SHIM_SRC" -ldl 2>"$VERIF_DIR/sim/target/shim-build.log"; then
            echo "harness error: build of faultfs.so failed" >&2
            cat "$VERIF_DIR/sim/target/shim-build.log" >&2
            exit 2
        fi
    fi
fi
exit 0
