//! World B with a scheduler: several `lace` processes whose file-system calls on the watched
//! directory happen in an order the harness decides.
//!
//! Every mutating call of a gated process parks in the shim until it is granted. The harness
//! waits until each live process is either parked or has exited, then lets exactly one parked
//! call happen, chosen by the schedule. One schedule is one interleaving, and it replays.

use std::io::Read;
use std::os::fd::{AsRawFd, FromRawFd, OwnedFd, RawFd};
use std::os::unix::process::{CommandExt, ExitStatusExt};
use std::path::Path;
use std::process::{Child, Command, Stdio};
use std::time::{Duration, Instant};

use crate::world_b::{lace_bin, shim_path, Scratch};

pub const GATE_GUARD: Duration = Duration::from_secs(20);

pub struct GatedSpec {
    pub args: Vec<std::ffi::OsString>,
    /// Fault plan of this process (ordinals are its own).
    pub plan: String,
    /// Standard output is a pipe whose reader goes away once the process has parked at its first
    /// gated call (`lace ... | head -1`: what was printed until then has been read).
    pub stdout_reader_leaves: bool,
}

#[derive(Debug, Clone)]
pub struct GatedExit {
    pub status: Option<i32>,
    pub signal: Option<i32>,
    pub stderr: Vec<u8>,
}

#[derive(Debug, Clone, PartialEq)]
pub enum Step {
    /// Process `proc` was granted its call (ordinal, operation).
    Granted { proc_: usize, ordinal: u64, op: String },
    /// Process `proc` has exited; everyone else is parked or gone.
    Exited { proc_: usize },
}

struct Gated {
    child: Child,
    req: std::fs::File,
    ack: OwnedFd,
    buffer: Vec<u8>,
    pending: Option<(u64, String)>,
    exit: Option<GatedExit>,
    stdout: Option<std::process::ChildStdout>,
}

fn pipe() -> Option<(OwnedFd, OwnedFd)> {
    let mut fds = [0 as RawFd; 2];
    if unsafe { libc::pipe2(fds.as_mut_ptr(), libc::O_CLOEXEC) } != 0 {
        return None;
    }
    unsafe { Some((OwnedFd::from_raw_fd(fds[0]), OwnedFd::from_raw_fd(fds[1]))) }
}


/// Next announcement of a process: `Ok(Some((ordinal, op)))` parked, `Ok(None)` request pipe
/// closed (the process is gone or going), `Err` nothing within the guard.
fn next_request(p: &mut Gated, deadline: Instant) -> Result<Option<(u64, String)>, ()> {
    loop {
        if let Some(nl) = p.buffer.iter().position(|b| *b == b'\n') {
            let line: Vec<u8> = p.buffer.drain(..=nl).collect();
            let line = String::from_utf8_lossy(&line[..line.len() - 1]).into_owned();
            let mut parts = line.splitn(3, ' ');
            let ordinal = parts.next().and_then(|o| o.parse().ok()).unwrap_or(0);
            let op = parts.next().unwrap_or("").to_string();
            return Ok(Some((ordinal, op)));
        }
        let left = deadline.saturating_duration_since(Instant::now());
        if left.is_zero() {
            return Err(());
        }
        let mut pfd = libc::pollfd {
            fd: p.req.as_raw_fd(),
            events: libc::POLLIN,
            revents: 0,
        };
        let ready = unsafe { libc::poll(&mut pfd, 1, left.as_millis().min(1000) as i32) };
        if ready <= 0 {
            continue;
        }
        let mut buf = [0u8; 512];
        match p.req.read(&mut buf) {
            Ok(0) => return Ok(None),
            Ok(n) => p.buffer.extend_from_slice(&buf[..n]),
            Err(e) if e.kind() == std::io::ErrorKind::Interrupted => {}
            Err(_) => return Ok(None),
        }
    }
}

fn reap(p: &mut Gated) -> Result<GatedExit, String> {
    let status = p.child.wait().map_err(|e| format!("wait: {}", e))?;
    let mut stderr = Vec::new();
    if let Some(mut e) = p.child.stderr.take() {
        let _ = e.read_to_end(&mut stderr);
    }
    Ok(GatedExit {
        status: status.code(),
        signal: status.signal(),
        stderr,
    })
}

/// Run the processes to completion. `choose(parked)` picks which of the parked processes (given
/// as indices into `specs`, ascending) goes next. `observe(step)` is called after every step,
/// at an instant when no gated call is in flight.
pub fn run_gated(
    scratch: &Scratch,
    watch: &Path,
    cwd: &Path,
    specs: &[GatedSpec],
    choose: &mut dyn FnMut(&[usize]) -> usize,
    observe: &mut dyn FnMut(&Step, &[Option<GatedExit>]),
) -> Result<Vec<GatedExit>, String> {
    let mut procs: Vec<Gated> = Vec::new();
    for spec in specs {
        let (req_r, req_w) = pipe().ok_or("pipe")?;
        let (ack_r, ack_w) = pipe().ok_or("pipe")?;
        let (req_w_fd, ack_r_fd) = (req_w.as_raw_fd(), ack_r.as_raw_fd());
        let mut cmd = Command::new(lace_bin());
        cmd.args(&spec.args)
            .current_dir(cwd)
            .env_clear()
            .env("NO_COLOR", "1")
            .env("HOME", &scratch.dir)
            .env("PATH", "/usr/bin:/bin")
            .env("LD_PRELOAD", shim_path())
            .env("FAULTFS_PLAN", &spec.plan)
            .env("FAULTFS_DIR", watch)
            .env("FAULTFS_GATE", "198,199")
            .stdin(Stdio::null())
            .stdout(if spec.stdout_reader_leaves { Stdio::piped() } else { Stdio::null() })
            .stderr(Stdio::piped());
        unsafe {
            cmd.pre_exec(move || {
                // Fixed descriptor numbers for the shim (dup2 clears close-on-exec)
                libc::prctl(libc::PR_SET_PDEATHSIG, libc::SIGKILL);
                if libc::dup2(req_w_fd, 198) < 0 || libc::dup2(ack_r_fd, 199) < 0 {
                    return Err(std::io::Error::last_os_error());
                }
                Ok(())
            });
        }
        let mut child = cmd.spawn().map_err(|e| format!("spawn: {}", e))?;
        let stdout = child.stdout.take();
        drop(req_w);
        drop(ack_r);
        procs.push(Gated {
            child,
            req: std::fs::File::from(req_r),
            ack: ack_w,
            buffer: Vec::new(),
            pending: None,
            exit: None,
            stdout,
        });
    }

    let exits = |procs: &Vec<Gated>| procs.iter().map(|p| p.exit.clone()).collect::<Vec<_>>();
    let deadline = Instant::now() + GATE_GUARD;
    let abort = |procs: &mut Vec<Gated>| {
        for q in procs.iter_mut() {
            let _ = q.child.kill();
            let _ = q.child.wait();
        }
    };
    // Every live process must be parked (or turn out to have exited) before anything is decided
    for i in 0..procs.len() {
        match next_request(&mut procs[i], deadline) {
            Ok(Some(request)) => procs[i].pending = Some(request),
            Ok(None) => {
                procs[i].exit = Some(reap(&mut procs[i])?);
                observe(&Step::Exited { proc_: i }, &exits(&procs));
            }
            Err(()) => {
                abort(&mut procs);
                return Err("a gated process neither parked nor exited within the guard".into());
            }
        }
        // The reader of this process's standard output has seen what was printed so far; now
        // it leaves
        procs[i].stdout = None;
    }
    loop {
        let parked: Vec<usize> = (0..procs.len()).filter(|i| procs[*i].pending.is_some()).collect();
        if parked.is_empty() {
            break;
        }
        let pick = choose(&parked);
        let pick = if parked.contains(&pick) { pick } else { parked[0] };
        let (ordinal, op) = procs[pick].pending.take().expect("parked");
        let grant = [b'G'];
        let written = unsafe { libc::write(procs[pick].ack.as_raw_fd(), grant.as_ptr() as *const libc::c_void, 1) };
        if written != 1 {
            abort(&mut procs);
            return Err("grant".into());
        }
        // The granted call has happened once the process parks again or is gone; everyone else
        // is parked, so what `observe` sees is a stable state
        let step = Step::Granted { proc_: pick, ordinal, op };
        match next_request(&mut procs[pick], deadline) {
            Ok(Some(request)) => {
                procs[pick].pending = Some(request);
                observe(&step, &exits(&procs));
            }
            Ok(None) => {
                procs[pick].exit = Some(reap(&mut procs[pick])?);
                observe(&step, &exits(&procs));
                observe(&Step::Exited { proc_: pick }, &exits(&procs));
            }
            Err(()) => {
                abort(&mut procs);
                return Err("a gated process neither parked nor exited within the guard".into());
            }
        }
    }
    Ok(procs.into_iter().map(|p| p.exit.expect("all exited")).collect())
}
