//! World A: the whole of lace (assembler as loader, VM, debugger, command readers, output layer)
//! executed in-process on a fresh thread per run, under the simulated environment of
//! `lace::verif`.

use std::panic::{catch_unwind, AssertUnwindSafe};
use std::str::FromStr;
use std::sync::Mutex;

use lace::verif::{self, Event, Key, Regs, Sim, SimExit, SimStop, Transport};

use crate::capture::Capture;

pub type Mem = Box<[u16; 0x10000]>;

/// What is loaded.
#[derive(Clone, Debug, PartialEq)]
pub enum Image {
    /// Assembly text through the real assembler.
    Source(String),
    /// Raw words, origin first, through `RunEnvironment::from_raw`.
    Raw(Vec<u16>),
}

/// How the debugger gets its commands.
#[derive(Clone, Debug, PartialEq)]
pub struct DebugCfg {
    /// `--command` argument.
    pub arg: Option<String>,
    /// Terminal transport: pre-existing history and the key events; otherwise piped stdin.
    pub terminal: Option<(Vec<String>, Vec<Key2>)>,
}

/// Serializable mirror of `lace::verif::Key`.
#[derive(Clone, Debug, PartialEq)]
pub enum Key2 {
    Enter,
    Backspace,
    Delete,
    Left,
    Right,
    Up,
    Down,
    CtrlLeft,
    CtrlRight,
    Char(char),
}

impl Key2 {
    pub fn to_key(&self) -> Key {
        match self {
            Key2::Enter => Key::Enter,
            Key2::Backspace => Key::Backspace,
            Key2::Delete => Key::Delete,
            Key2::Left => Key::Left,
            Key2::Right => Key::Right,
            Key2::Up => Key::Up,
            Key2::Down => Key::Down,
            Key2::CtrlLeft => Key::CtrlLeft,
            Key2::CtrlRight => Key::CtrlRight,
            Key2::Char(c) => Key::Char(*c),
        }
    }
    pub fn name(&self) -> String {
        match self {
            Key2::Char(c) => format!("c:{}", c),
            other => format!("{:?}", other),
        }
    }
    pub fn from_name(s: &str) -> Option<Key2> {
        Some(match s {
            "Enter" => Key2::Enter,
            "Backspace" => Key2::Backspace,
            "Delete" => Key2::Delete,
            "Left" => Key2::Left,
            "Right" => Key2::Right,
            "Up" => Key2::Up,
            "Down" => Key2::Down,
            "CtrlLeft" => Key2::CtrlLeft,
            "CtrlRight" => Key2::CtrlRight,
            other => Key2::Char(other.strip_prefix("c:")?.chars().next()?),
        })
    }
}

#[derive(Clone, Debug, PartialEq)]
pub struct Session {
    pub image: Image,
    pub stack: bool,
    pub minimal: bool,
    pub debug: Option<DebugCfg>,
    /// The simulated standard input (debugger script and/or program input); its end is EOF.
    pub stdin: Vec<u8>,
    /// Program input typed on an interactive terminal instead (no debugger): key events.
    pub tty_input: Option<Vec<Key2>>,
    /// Run-loop iterations allowed.
    pub fuel: u64,
    /// Idle run-loop iterations (no instruction, no command) allowed in a row.
    pub max_idle: u64,
    /// Command lines (accepted or rejected) the session may read; a finite script cannot yield
    /// more. `u64::MAX`: unbounded.
    pub max_commands: u64,
    pub log_exec: bool,
}

#[derive(Clone, Debug, PartialEq)]
pub enum End {
    /// `run()` returned.
    Returned,
    /// lace called `process::exit(code)`.
    Exit(i32),
    Panic(String),
    Fuel,
    Spin,
    /// More command lines were read than the script holds.
    Flood,
    KeysExhausted,
    /// The source was rejected (diagnostic text).
    AsmError(String),
    /// The run did not come back within the wall-clock hang guard: lace is looping somewhere the
    /// simulated clock cannot see (neither a run-loop tick nor a command line). The worker
    /// process is abandoned afterwards.
    Hang,
}

impl End {
    pub fn label(&self) -> String {
        match self {
            End::Returned => "returned".into(),
            End::Exit(code) => format!("exit({})", code),
            End::Panic(msg) => format!("panic({})", msg),
            End::Fuel => "fuel".into(),
            End::Spin => "spin".into(),
            End::Flood => "command-flood".into(),
            End::KeysExhausted => "keys-exhausted".into(),
            End::AsmError(_) => "asm-error".into(),
            End::Hang => "hang".into(),
        }
    }
    /// Process exit status the user would see (101 for a panic).
    pub fn status(&self) -> Option<i32> {
        match self {
            End::Returned => Some(0),
            End::Exit(code) => Some(*code),
            End::Panic(_) => Some(101),
            End::AsmError(_) => Some(1),
            _ => None,
        }
    }
}

pub struct Outcome {
    pub end: End,
    pub stdout: Vec<u8>,
    pub stderr: Vec<u8>,
    pub events: Vec<Event>,
    /// State right after load (None if loading failed).
    pub load: Option<(Regs, Mem)>,
    pub load_breakpoints: Option<Vec<(u16, bool)>>,
    /// State when the run ended, however it ended.
    pub fin: Option<(Regs, Mem)>,
    /// Debugger still attached at the end.
    pub debugger_attached: bool,
    pub ticks: u64,
    pub execs: u64,
    pub stdin_reads: u64,
    pub stdin_pos: usize,
    pub keys_read: u64,
    pub max_idle_seen: u64,
}

static PANIC_MESSAGE: Mutex<Option<String>> = Mutex::new(None);

pub const HANG_GUARD_S: u64 = 30;

/// Set once a run thread had to be abandoned: this process must not execute further runs.
pub static POISONED: std::sync::atomic::AtomicBool = std::sync::atomic::AtomicBool::new(false);

pub fn poisoned() -> bool {
    POISONED.load(std::sync::atomic::Ordering::SeqCst)
}

/// Route panic messages into `PANIC_MESSAGE` instead of stderr. Typed unwinds raised with
/// `resume_unwind` never reach the hook.
pub fn install_panic_hook() {
    std::panic::set_hook(Box::new(|info| {
        let msg = if let Some(s) = info.payload().downcast_ref::<&str>() {
            s.to_string()
        } else if let Some(s) = info.payload().downcast_ref::<String>() {
            s.clone()
        } else {
            "<non-string panic>".to_string()
        };
        let loc = info
            .location()
            .map(|l| format!("{}:{}", l.file(), l.line()))
            .unwrap_or_default();
        *PANIC_MESSAGE.lock().unwrap() = Some(format!("{} @ {}", msg, loc));
    }));
}

pub fn take_panic_message() -> Option<String> {
    PANIC_MESSAGE.lock().unwrap().take()
}

fn copy_mem(mem: &[u16; 0x10000]) -> Mem {
    let mut boxed: Mem = vec![0u16; 0x10000].into_boxed_slice().try_into().unwrap();
    boxed.copy_from_slice(mem);
    boxed
}

struct ThreadResult {
    end: End,
    events: Vec<Event>,
    load: Option<(Regs, Mem)>,
    load_breakpoints: Option<Vec<(u16, bool)>>,
    fin: Option<(Regs, Mem)>,
    debugger_attached: bool,
    sim: Option<Sim>,
}

fn classify(payload: Box<dyn std::any::Any + Send>) -> End {
    if let Some(exit) = payload.downcast_ref::<SimExit>() {
        return End::Exit(exit.0);
    }
    if let Some(stop) = payload.downcast_ref::<SimStop>() {
        return match stop {
            SimStop::OutOfFuel => End::Fuel,
            SimStop::Spin => End::Spin,
            SimStop::KeysExhausted => End::KeysExhausted,
            SimStop::CommandFlood => End::Flood,
        };
    }
    let msg = PANIC_MESSAGE
        .lock()
        .unwrap()
        .take()
        .unwrap_or_else(|| "<unknown panic>".to_string());
    End::Panic(msg)
}

fn thread_body(session: &Session) -> ThreadResult {
    let mut result = ThreadResult {
        end: End::Returned,
        events: Vec::new(),
        load: None,
        load_breakpoints: None,
        fin: None,
        debugger_attached: false,
        sim: None,
    };

    let features = lace::features::Features::from_str(if session.stack { "stack" } else { "" })
        .expect("feature string");
    lace::features::init(features);

    let mut sim = Sim::default();
    sim.stdin = session.stdin.clone();
    // How much one read hands out is a property of the pipe, not of the program: drawn from the
    // stream's own content so that one scenario is one behaviour
    sim.stdin_chunk = *[1usize, 1, 2, 7, 64, 4096, usize::MAX].get((crate::rng::fnv(&session.stdin) % 7) as usize).unwrap_or(&1);
    sim.fuel = session.fuel;
    sim.max_idle_ticks = session.max_idle;
    sim.max_commands = session.max_commands;
    sim.log_exec = session.log_exec;
    sim.transport = match &session.debug {
        Some(DebugCfg {
            terminal: Some((history, keys)),
            ..
        }) => {
            sim.keys = keys.iter().map(|k| k.to_key()).collect();
            Some(Transport::Terminal(history.clone()))
        }
        _ => match &session.tty_input {
            Some(keys) => {
                sim.keys = keys.iter().map(|k| k.to_key()).collect();
                Some(Transport::Terminal(Vec::new()))
            }
            None => Some(Transport::Stdin),
        },
    };
    verif::arm(sim);

    let mut source: Option<lace::StaticSource> = None;

    // Load
    let loaded = catch_unwind(AssertUnwindSafe(|| -> Result<lace::RunEnvironment, String> {
        match &session.image {
            Image::Source(text) => {
                let src = lace::StaticSource::new(text.clone());
                let text: &'static str = src.src();
                source = Some(src);
                let parser = lace::AsmParser::new(text).map_err(|e| format!("{:?}", e))?;
                let mut air = parser.parse().map_err(|e| format!("{:?}", e))?;
                air.backpatch().map_err(|e| format!("{:?}", e))?;
                let opts = session.debug.as_ref().map(|d| lace::debugger::Options {
                    command: d.arg.clone(),
                });
                lace::RunEnvironment::try_from(air, opts).map_err(|e| format!("{:?}", e))
            }
            Image::Raw(words) => {
                lace::RunEnvironment::from_raw(words).map_err(|e| format!("{:?}", e))
            }
        }
    }));

    let mut env = match loaded {
        Ok(Ok(env)) => env,
        Ok(Err(diagnostic)) => {
            result.end = End::AsmError(diagnostic);
            result.sim = verif::disarm();
            if let Some(mut src) = source {
                src.reclaim();
            }
            return result;
        }
        Err(payload) => {
            result.end = classify(payload);
            result.sim = verif::disarm();
            // The source is leaked on this path (a panic may have left references to it).
            return result;
        }
    };

    // As `main.rs::run` does between load and run
    lace::set_minimal(session.minimal);

    let regs = env.verif_regs();
    let mem = copy_mem(env.verif_mem());
    verif::set_baseline(env.verif_mem());
    result.load_breakpoints = env.verif_breakpoints();
    result.load = Some((regs, mem));

    let ran = catch_unwind(AssertUnwindSafe(|| env.run()));
    result.end = match ran {
        Ok(()) => End::Returned,
        Err(payload) => classify(payload),
    };

    result.fin = Some((env.verif_regs(), copy_mem(env.verif_mem())));
    result.debugger_attached = env.verif_has_debugger();
    result.sim = verif::disarm();

    drop(env);
    if let Some(mut src) = source {
        src.reclaim();
    }
    result
}

const MEMORY_GUARD_KB: u64 = 1_500_000;

/// Does the run's end agree with the expected one? Exit statuses the properties name (0, 0xEE)
/// must be met exactly; where the reference only knows "the emulator gives up with an error"
/// (exhausted input, a reserved instruction with the feature off: lace uses 1) any error status
/// will do.
pub fn end_agrees(real: &End, expected: &End) -> bool {
    match (real, expected) {
        (End::Exit(code), End::Exit(1)) => *code != 0 && *code != 0xEE && *code != 101,
        _ => real == expected,
    }
}

/// Resident set size of this process in KiB (0 if unknown).
fn resident_kb() -> u64 {
    std::fs::read_to_string("/proc/self/statm")
        .ok()
        .and_then(|t| t.split_whitespace().nth(1).and_then(|p| p.parse::<u64>().ok()))
        .map(|pages| pages * 4)
        .unwrap_or(0)
}

/// Execute one session on a fresh thread and collect everything observable.
pub fn run_session(capture: &Capture, session: &Session) -> Outcome {
    // Once per process: what the HALT trap prints on this tree
    static CALIBRATING: std::sync::atomic::AtomicBool = std::sync::atomic::AtomicBool::new(false);
    if crate::model::vm::HALT_TEXT.get().is_none() && !CALIBRATING.swap(true, std::sync::atomic::Ordering::SeqCst) {
        let halt_only = Session {
            image: Image::Source("    halt\n".to_string()),
            stack: false,
            minimal: true,
            debug: None,
            stdin: Vec::new(),
            tty_input: None,
            fuel: 1000,
            max_idle: u64::MAX,
            max_commands: u64::MAX,
            log_exec: false,
        };
        let outcome = run_session(capture, &halt_only);
        let text = if outcome.end == End::Returned && outcome.execs == 1 {
            outcome.stdout.clone()
        } else {
            crate::model::vm::HALT_BANNER.to_vec()
        };
        let _ = crate::model::vm::HALT_TEXT.set(text);
    }
    // Leftovers of the harness itself must not be attributed to the run
    let _ = capture.take();
    *PANIC_MESSAGE.lock().unwrap() = None;

    let session_ref = session.clone();
    let (tx, rx) = std::sync::mpsc::channel();
    let handle = std::thread::Builder::new()
        .name("sim-run".into())
        .stack_size(16 << 20)
        .spawn(move || {
            let result = catch_unwind(AssertUnwindSafe(|| thread_body(&session_ref)));
            let _ = tx.send(result);
        })
        .expect("spawn");
    let empty = |end: End| ThreadResult {
        end,
        events: Vec::new(),
        load: None,
        load_breakpoints: None,
        fin: None,
        debugger_attached: false,
        sim: None,
    };
    // The hang guard is the only wall-clock read that can influence a result; it turns an
    // endless loop into a reported outcome instead of a stuck check.
    // A loop that allocates is cut short by the memory half of the guard (resident set grown by
    // more than MEMORY_GUARD_KB since the run started), before 16 workers exhaust the machine.
    let started = std::time::Instant::now();
    let rss_at_start = resident_kb();
    let received = loop {
        match rx.recv_timeout(std::time::Duration::from_millis(200)) {
            Err(std::sync::mpsc::RecvTimeoutError::Timeout) => {
                if started.elapsed().as_secs() >= HANG_GUARD_S || resident_kb().saturating_sub(rss_at_start) > MEMORY_GUARD_KB {
                    break Err(());
                }
            }
            Err(_) => break Err(()),
            Ok(result) => break Ok(result),
        }
    };
    let result = match received {
        Ok(Ok(result)) => {
            let _ = handle.join();
            result
        }
        Ok(Err(payload)) => {
            let _ = handle.join();
            empty(classify(payload))
        }
        Err(_) => {
            POISONED.store(true, std::sync::atomic::Ordering::SeqCst);
            empty(End::Hang)
        }
    };
    let (stdout, stderr) = capture.take();

    let mut outcome = Outcome {
        end: result.end,
        stdout,
        stderr,
        events: result.events,
        load: result.load,
        load_breakpoints: result.load_breakpoints,
        fin: result.fin,
        debugger_attached: result.debugger_attached,
        ticks: 0,
        execs: 0,
        stdin_reads: 0,
        stdin_pos: 0,
        keys_read: 0,
        max_idle_seen: 0,
    };
    if let Some(sim) = result.sim {
        outcome.events = sim.events;
        outcome.ticks = sim.ticks;
        outcome.execs = sim.execs;
        outcome.stdin_reads = sim.stdin_reads;
        outcome.stdin_pos = sim.stdin_pos;
        outcome.keys_read = sim.keys_read;
        outcome.max_idle_seen = sim.max_idle_seen;
    }
    outcome
}

impl Outcome {
    pub fn exec_trace(&self) -> Vec<(u16, u16)> {
        self.events
            .iter()
            .filter_map(|e| match e {
                Event::Exec { pc, instr } => Some((*pc, *instr)),
                _ => None,
            })
            .collect()
    }
}
