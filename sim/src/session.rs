//! Debugger sessions in world A: delivery of a script through a transport, execution of the
//! real system, and the lockstep comparison of its event log with RefDbg. Every divergence is
//! attributed to the property that owns it.

use lace::verif::{Event, Pause};

use crate::capture::Capture;
use crate::engine::{Report, Violation};
use crate::gen::Program;
use crate::json::J;
use crate::model::dbg::{After, Dbg, Outcome as MOutcome, PauseReason, Policy, StepOverPolicy};
use crate::model::vm::{is_call, is_halt, Stop, Vm, USER_END};
use crate::props::c03::end_key;
use crate::rng::{fnv, Rng};
use crate::scn;
use crate::script::{script_from_json, script_to_json, Cmd, EvalKind, Item, Loc, Target};
use crate::world_a::{run_session, DebugCfg, End, Image, Key2, Outcome, Session};

#[derive(Clone, Debug, PartialEq)]
pub enum Transport {
    /// Whole script in `--command`.
    Arg,
    /// Whole script on standard input.
    Stdin,
    /// First `k` commands in `--command`, the rest on standard input.
    Split(usize),
    /// Typed on the simulated terminal.
    Terminal,
}

#[derive(Clone, Debug, PartialEq)]
pub struct DebugScenario {
    pub program: Program,
    pub stack: bool,
    pub minimal: bool,
    pub script: Vec<Item>,
    pub transport: Transport,
    /// Seed of separator choice (`;` vs newline), blank commands and trailing separator.
    pub sep_seed: u64,
    /// Program input on standard input. Only meaningful when the whole script arrives in
    /// `--command` and ends with an explicit `quit`/`exit` (debugger and program share stdin).
    pub input: Vec<u8>,
}

impl DebugScenario {
    pub fn to_json(&self) -> J {
        let (t, k) = match &self.transport {
            Transport::Arg => ("arg", 0),
            Transport::Stdin => ("stdin", 0),
            Transport::Split(k) => ("split", *k),
            Transport::Terminal => ("terminal", 0),
        };
        J::obj()
            .set("program", scn::program_to_json(&self.program))
            .set("stack", self.stack)
            .set("minimal", self.minimal)
            .set("script", script_to_json(&self.script))
            .set("transport", t)
            .set("split_at", k)
            .set("sep_seed", J::Str(format!("{:016x}", self.sep_seed)))
            .set("input", scn::bytes_to_json(&self.input))
    }

    pub fn from_json(j: &J) -> Option<DebugScenario> {
        let transport = match j.get_str("transport")? {
            "arg" => Transport::Arg,
            "stdin" => Transport::Stdin,
            "split" => Transport::Split(j.get_int("split_at").unwrap_or(0) as usize),
            "terminal" => Transport::Terminal,
            _ => return None,
        };
        Some(DebugScenario {
            program: scn::program_from_json(j.get("program")?)?,
            stack: j.get_bool("stack")?,
            minimal: j.get_bool("minimal")?,
            script: script_from_json(j.get("script")?),
            transport,
            sep_seed: j
                .get_str("sep_seed")
                .and_then(|s| u64::from_str_radix(s, 16).ok())
                .unwrap_or(0),
            input: j.get("input").map(scn::bytes_from_json).unwrap_or_default(),
        })
    }

    /// Program input is only delivered when the debugger can never read it as commands: the
    /// whole script in `--command` and ending explicitly (standard input is then all the
    /// program's).
    pub fn input_is_deliverable(&self) -> bool {
        self.transport == Transport::Arg && self.script.iter().any(|i| matches!(i.cmd, Cmd::Quit | Cmd::Exit))
    }

    /// Script on standard input ending with `quit`, program input following it on the same
    /// stream: the debugger must consume exactly its own commands and not a byte more.
    pub fn input_follows_script(&self) -> bool {
        self.transport == Transport::Stdin
            && !self.input.is_empty()
            && matches!(self.script.last().map(|i| &i.cmd), Some(Cmd::Quit))
            && !self.script[..self.script.len() - 1].iter().any(|i| matches!(i.cmd, Cmd::Quit | Cmd::Exit))
    }
}

/// What the transports carry.
pub struct Delivery {
    pub arg: Option<String>,
    pub stdin: Vec<u8>,
    pub terminal: Option<(Vec<String>, Vec<Key2>)>,
}

/// Render the script for a transport. Separators are drawn from `sep_seed`; a seed of 0 gives
/// newlines only and no blank commands.
/// Rejected lines may carry bytes that are not valid UTF-8: inside a `String` they travel as
/// private-use characters U+E080..U+E0FF. On a byte transport (stdin) they become the raw byte,
/// elsewhere the replacement character a lossy decoder would produce.
pub fn raw_byte_marker(byte: u8) -> char {
    char::from_u32(0xE000 + byte as u32).unwrap()
}

fn to_wire_bytes(text: &str) -> Vec<u8> {
    let mut out = Vec::with_capacity(text.len());
    for c in text.chars() {
        let code = c as u32;
        if (0xE080..=0xE0FF).contains(&code) {
            out.push((code - 0xE000) as u8);
        } else {
            let mut buf = [0u8; 4];
            out.extend_from_slice(c.encode_utf8(&mut buf).as_bytes());
        }
    }
    out
}

fn to_text(text: &str) -> String {
    text.chars()
        .map(|c| if (0xE080..=0xE0FF).contains(&(c as u32)) { '\u{FFFD}' } else { c })
        .collect()
}

pub fn deliver(script: &[Item], transport: &Transport, sep_seed: u64) -> Delivery {
    let mut rng = Rng::new(sep_seed);
    let lines: Vec<String> = script.iter().map(|i| i.render()).collect();
    let seps: Vec<char> = (0..lines.len())
        .map(|_| if sep_seed != 0 && rng.chance(2, 5) { ';' } else { '\n' })
        .collect();
    let blank: Vec<bool> = (0..lines.len())
        .map(|_| sep_seed != 0 && rng.chance(1, 10))
        .collect();
    let join = |from: usize, to: usize, last_sep: bool| -> String {
        let mut out = String::new();
        for i in from..to {
            if blank[i] {
                // An empty command: legal, skipped by every reader
                out.push_str(if seps[i] == ';' { " ;" } else { "\n" });
            }
            out.push_str(&lines[i]);
            if i + 1 < to || last_sep {
                out.push(seps[i]);
            }
        }
        out
    };
    let n = lines.len();
    let trailing = sep_seed != 0 && rng.coin();
    match transport {
        Transport::Arg => Delivery {
            arg: Some(to_text(&join(0, n, trailing))),
            stdin: Vec::new(),
            terminal: None,
        },
        Transport::Stdin => Delivery {
            arg: None,
            stdin: to_wire_bytes(&join(0, n, trailing || n == 0)),
            terminal: None,
        },
        Transport::Split(k) => {
            let k = (*k).min(n);
            Delivery {
                arg: Some(to_text(&join(0, k, rng.coin()))),
                stdin: to_wire_bytes(&join(k, n, trailing)),
                terminal: None,
            }
        }
        Transport::Terminal => {
            let mut keys = Vec::new();
            for i in 0..n {
                for ch in to_text(&lines[i]).chars() {
                    keys.push(Key2::Char(ch));
                }
                if seps[i] == ';' && i + 1 < n {
                    keys.push(Key2::Char(';'));
                    // A line may also end with its separator
                    if sep_seed != 0 && rng.chance(1, 4) {
                        keys.push(Key2::Enter);
                    }
                } else {
                    if sep_seed != 0 && rng.chance(1, 6) {
                        keys.push(Key2::Char(';'));
                    }
                    keys.push(Key2::Enter);
                }
            }
            Delivery {
                arg: None,
                stdin: Vec::new(),
                terminal: Some((Vec::new(), keys)),
            }
        }
    }
}

// ---------------------------------------------------------------------------------------------
// Expected parse of a command (for C14)
// ---------------------------------------------------------------------------------------------

/// Is this command line rejected by the grammar itself (before any address check)?
pub fn parse_rejected(cmd: &Cmd) -> bool {
    let bad_loc = |l: &Loc| match l {
        Loc::Abs(a) => !(0..=0xFFFF).contains(a),
        Loc::Label { off, .. } => !(-0x8000..=0x7FFF).contains(off),
        Loc::Pc(off) => !(-0x8000..=0x7FFF).contains(off),
    };
    let bad_target = |t: &Target| match t {
        Target::Reg(_) => false,
        Target::Mem(l) => bad_loc(l),
    };
    match cmd {
        Cmd::Garbage(_) | Cmd::Sudo => true,
        Cmd::StepInto(Some(c)) => !(-0x8000..=0xFFFF).contains(c),
        Cmd::BreakAdd(l) | Cmd::BreakRemove(l) | Cmd::Goto(l) => bad_loc(l),
        Cmd::Assembly(Some(l)) => bad_loc(l),
        Cmd::Print(t) => bad_target(t),
        Cmd::Move(t, v) => bad_target(t) || !(-0x8000..=0xFFFF).contains(v),
        _ => false,
    }
}

/// What the `Debug` text of a parsed command shows: the variant (first identifier), every later
/// identifier (type, field and register names), the numbers and the quoted strings, in order.
#[derive(Debug, PartialEq, Default, Clone)]
struct Atoms {
    variant: String,
    idents: Vec<String>,
    numbers: Vec<i64>,
    strings: Vec<String>,
}

fn debug_atoms(text: &str) -> Atoms {
    let mut atoms = Atoms::default();
    let chars: Vec<char> = text.chars().collect();
    let mut i = 0;
    while i < chars.len() {
        let c = chars[i];
        if c == '"' {
            let mut s = String::new();
            i += 1;
            while i < chars.len() && chars[i] != '"' {
                if chars[i] == '\\' && i + 1 < chars.len() {
                    i += 1;
                    s.push(match chars[i] {
                        'n' => '\n',
                        't' => '\t',
                        other => other,
                    });
                } else {
                    s.push(chars[i]);
                }
                i += 1;
            }
            i += 1;
            atoms.strings.push(s);
        } else if c.is_ascii_alphabetic() || c == '_' {
            let mut s = String::new();
            while i < chars.len() && (chars[i].is_ascii_alphanumeric() || chars[i] == '_') {
                s.push(chars[i]);
                i += 1;
            }
            if atoms.variant.is_empty() {
                atoms.variant = s;
            } else {
                atoms.idents.push(s);
            }
        } else if c.is_ascii_digit() || (c == '-' && i + 1 < chars.len() && chars[i + 1].is_ascii_digit()) {
            let mut s = String::new();
            s.push(c);
            i += 1;
            while i < chars.len() && chars[i].is_ascii_digit() {
                s.push(chars[i]);
                i += 1;
            }
            if let Ok(n) = s.parse::<i64>() {
                atoms.numbers.push(n);
            }
        } else {
            i += 1;
        }
    }
    atoms
}

/// Kind and argument shape of a command: the unit for which the rendering is learned.
fn shape_key(cmd: &Cmd) -> String {
    let loc = |l: &Loc| match l {
        Loc::Abs(_) => "abs",
        Loc::Pc(_) => "pc",
        Loc::Label { .. } => "label",
    };
    let target = |t: &Target| match t {
        Target::Reg(_) => "reg",
        Target::Mem(l) => loc(l),
    };
    match cmd {
        Cmd::StepInto(c) => format!("step_into:{}", if c.is_some() { "count" } else { "none" }),
        Cmd::BreakAdd(l) | Cmd::BreakRemove(l) | Cmd::Goto(l) => format!("{}:{}", cmd.kind_name(), loc(l)),
        Cmd::Assembly(l) => format!("assembly:{}", l.as_ref().map(loc).unwrap_or("none")),
        Cmd::Print(t) => format!("print:{}", target(t)),
        Cmd::Move(t, _) => format!("move:{}", target(t)),
        other => other.kind_name().to_string(),
    }
}

/// The argument values of a command as the parser must have understood them:
/// (register, numbers, strings), in the harness's own order.
fn argument_values(cmd: &Cmd) -> (Option<u8>, Vec<i64>, Vec<String>) {
    let mut reg = None;
    let mut numbers = Vec::new();
    let mut strings = Vec::new();
    let mut loc = |l: &Loc, numbers: &mut Vec<i64>, strings: &mut Vec<String>| match l {
        Loc::Abs(v) => numbers.push(*v),
        Loc::Label { name, off } => {
            strings.push(name.clone());
            numbers.push(*off);
        }
        Loc::Pc(off) => numbers.push(*off),
    };
    match cmd {
        Cmd::StepInto(Some(c)) => numbers.push((*c as u16).max(1) as i64),
        Cmd::BreakAdd(l) | Cmd::BreakRemove(l) | Cmd::Goto(l) | Cmd::Assembly(Some(l)) => loc(l, &mut numbers, &mut strings),
        Cmd::Print(Target::Reg(r)) => reg = Some(*r),
        Cmd::Print(Target::Mem(l)) => loc(l, &mut numbers, &mut strings),
        Cmd::Move(t, v) => {
            match t {
                Target::Reg(r) => reg = Some(*r),
                Target::Mem(l) => loc(l, &mut numbers, &mut strings),
            }
            numbers.push((*v as u16) as i64);
        }
        Cmd::Echo(s) => strings.push(s.trim().to_string()),
        Cmd::Eval(e) => strings.push(e.text.trim().to_string()),
        _ => {}
    }
    (reg, numbers, strings)
}

#[derive(Clone, Debug)]
enum Slot<T> {
    /// Always this value, whatever the arguments.
    Const(T),
    /// The k-th argument value.
    Arg(usize),
}

/// How the current tree renders one command shape (learned, so that renaming a type, a variant
/// or a field, or reordering fields, is not mistaken for a parsing error).
#[derive(Clone, Debug)]
struct Template {
    variant: String,
    idents: Vec<String>,
    /// Position in `idents` of the register name, and the text around its digit.
    reg_slot: Option<(usize, String, String)>,
    numbers: Vec<Slot<i64>>,
    strings: Vec<Slot<String>>,
}

/// The calibration script: every command shape once, in its plainest documented spelling, with
/// argument values that cannot be confused with each other.
fn calibration_script() -> Vec<(String, Cmd)> {
    let label = || "Cal_lbl".to_string();
    let l_abs = Loc::Abs(0x3123);
    let l_pc = Loc::Pc(6);
    let l_label = Loc::Label { name: label(), off: 6 };
    let mut out: Vec<(String, Cmd)> = vec![
        ("step".into(), Cmd::Step),
        ("step into 7".into(), Cmd::StepInto(Some(7))),
        ("step into".into(), Cmd::StepInto(None)),
        ("step out".into(), Cmd::StepOut),
        ("continue".into(), Cmd::Continue),
        ("break list".into(), Cmd::BreakList),
        ("registers".into(), Cmd::Registers),
        ("help".into(), Cmd::Help),
        ("echo calibration text".into(), Cmd::Echo("calibration text".into())),
        ("print r3".into(), Cmd::Print(Target::Reg(3))),
        ("print r5".into(), Cmd::Print(Target::Reg(5))),
        ("move r3 x1234".into(), Cmd::Move(Target::Reg(3), 0x1234)),
        ("move r5 x1234".into(), Cmd::Move(Target::Reg(5), 0x1234)),
        ("assembly".into(), Cmd::Assembly(None)),
        (
            "eval add r1, r1, #1".into(),
            Cmd::Eval(crate::script::EvalInstr {
                text: "add r1, r1, #1".into(),
                kind: EvalKind::Word(0x1261),
            }),
        ),
    ];
    for (text, l) in [("x3123", &l_abs), ("^6", &l_pc), ("Cal_lbl+6", &l_label)] {
        out.push((format!("break add {}", text), Cmd::BreakAdd(l.clone())));
        out.push((format!("break remove {}", text), Cmd::BreakRemove(l.clone())));
        out.push((format!("print {}", text), Cmd::Print(Target::Mem(l.clone()))));
        out.push((format!("assembly {}", text), Cmd::Assembly(Some(l.clone()))));
        out.push((format!("move {} x1234", text), Cmd::Move(Target::Mem(l.clone()), 0x1234)));
        out.push((format!("goto {}", text), Cmd::Goto(l.clone())));
    }
    out.push(("reset".into(), Cmd::Reset));
    out
}

fn learn(cmd: &Cmd, text: &str) -> Template {
    let atoms = debug_atoms(text);
    let (_, numbers, strings) = argument_values(cmd);
    Template {
        variant: atoms.variant.clone(),
        idents: atoms.idents.clone(),
        reg_slot: None,
        numbers: atoms
            .numbers
            .iter()
            .map(|n| match numbers.iter().position(|a| a == n) {
                Some(k) => Slot::Arg(k),
                None => Slot::Const(*n),
            })
            .collect(),
        strings: atoms
            .strings
            .iter()
            .map(|s| match strings.iter().position(|a| a == s) {
                Some(k) => Slot::Arg(k),
                None => Slot::Const(s.clone()),
            })
            .collect(),
    }
}

/// Learned once per process from a calibration session on the current tree. `None`: the
/// calibration did not go as expected; the rendering is then not judged at all (the effect of
/// every command still is).
fn vocabulary(cap: &Capture) -> &'static Option<std::collections::HashMap<String, Template>> {
    static VOCAB: std::sync::OnceLock<Option<std::collections::HashMap<String, Template>>> = std::sync::OnceLock::new();
    VOCAB.get_or_init(|| {
        let script = calibration_script();
        let mut learned: std::collections::HashMap<String, Template> = std::collections::HashMap::new();
        // Two sessions: one ends with quit, one with exit
        for end in [("quit", Cmd::Quit), ("exit", Cmd::Exit)] {
            let mut lines: Vec<(String, Cmd)> = if end.0 == "quit" { script.clone() } else { Vec::new() };
            lines.push((end.0.to_string(), end.1.clone()));
            let session = Session {
                image: Image::Source("Cal_lbl halt\n".to_string()),
                stack: false,
                minimal: true,
                debug: Some(DebugCfg {
                    arg: Some(lines.iter().map(|l| l.0.clone()).collect::<Vec<_>>().join("\n")),
                    terminal: None,
                }),
                stdin: Vec::new(),
                tty_input: None,
                fuel: 100_000,
                max_idle: 64,
                max_commands: 4 * lines.len() as u64 + 8,
                log_exec: false,
            };
            let outcome = run_session(cap, &session);
            let texts: Vec<&String> = outcome
                .events
                .iter()
                .filter_map(|e| match e {
                    Event::Cmd(t) => Some(t),
                    _ => None,
                })
                .collect();
            let rejected = outcome.events.iter().any(|e| matches!(e, Event::CmdError(_)));
            if rejected || texts.len() < lines.len() {
                return None;
            }
            for ((_, cmd), text) in lines.iter().zip(texts.iter()) {
                let key = shape_key(cmd);
                let template = learn(cmd, text);
                match learned.get_mut(&key) {
                    None => {
                        learned.insert(key, template);
                    }
                    Some(first) => {
                        // The same shape with another register: the one identifier that differs
                        // is the register's name
                        let differing: Vec<usize> = (0..first.idents.len().min(template.idents.len()))
                            .filter(|i| first.idents[*i] != template.idents[*i])
                            .collect();
                        if first.idents.len() == template.idents.len() && differing.len() == 1 {
                            let (a, b) = (&first.idents[differing[0]], &template.idents[differing[0]]);
                            if let (Some(pa), Some(pb)) = (a.find('3'), b.find('5')) {
                                if pa == pb && a[..pa] == b[..pb] && a[pa + 1..] == b[pb + 1..] {
                                    first.reg_slot = Some((differing[0], a[..pa].to_string(), a[pa + 1..].to_string()));
                                }
                            }
                        }
                    }
                }
            }
        }
        // Distinct commands must not render alike
        let mut seen = std::collections::HashSet::new();
        for (key, t) in &learned {
            let kind = key.split(':').next().unwrap_or("");
            if !seen.insert((t.variant.clone(), kind.to_string())) {
                continue;
            }
        }
        let variants: std::collections::HashMap<&str, &str> = learned.iter().map(|(k, t)| (k.split(':').next().unwrap_or(""), t.variant.as_str())).collect();
        let distinct: std::collections::HashSet<&&str> = variants.values().collect();
        if distinct.len() != variants.len() {
            return None;
        }
        Some(learned)
    })
}

/// Does the rendering of the parsed command agree with what was typed? `Err`: what differs.
fn rendering_agrees(template: &Template, cmd: &Cmd, text: &str) -> Result<(), String> {
    let got = debug_atoms(text);
    let (reg, numbers, strings) = argument_values(cmd);
    if got.variant != template.variant {
        return Err(format!("command {} where {} is expected", got.variant, template.variant));
    }
    let mut want_idents = template.idents.clone();
    match (&template.reg_slot, reg) {
        (Some((at, pre, suf)), Some(r)) => want_idents[*at] = format!("{}{}{}", pre, r, suf),
        // A register whose rendering was not understood: names are not judged for this shape
        (None, Some(_)) => want_idents = got.idents.clone(),
        _ => {}
    }
    if got.idents != want_idents {
        return Err(format!("shape {:?} where {:?} is expected", got.idents, want_idents));
    }
    let want_numbers: Vec<i64> = template
        .numbers
        .iter()
        .map(|s| match s {
            Slot::Const(n) => *n,
            Slot::Arg(k) => numbers.get(*k).copied().unwrap_or(i64::MIN),
        })
        .collect();
    // Every argument value must show up (a rendering that hides one cannot be judged)
    let all_shown = (0..numbers.len()).all(|k| template.numbers.iter().any(|s| matches!(s, Slot::Arg(a) if *a == k)));
    if all_shown && got.numbers != want_numbers {
        return Err(format!("values {:?} where {:?} are expected", got.numbers, want_numbers));
    }
    let want_strings: Vec<String> = template
        .strings
        .iter()
        .map(|s| match s {
            Slot::Const(t) => t.clone(),
            Slot::Arg(k) => strings.get(*k).cloned().unwrap_or_default(),
        })
        .collect();
    let all_shown = (0..strings.len()).all(|k| template.strings.iter().any(|s| matches!(s, Slot::Arg(a) if *a == k)));
    if all_shown && got.strings != want_strings {
        return Err(format!("texts {:?} where {:?} are expected", got.strings, want_strings));
    }
    Ok(())
}

// ---------------------------------------------------------------------------------------------
// Lockstep comparison
// ---------------------------------------------------------------------------------------------

fn mem_diff(base: &[u16; 0x10000], mem: &[u16; 0x10000]) -> Vec<(u16, u16)> {
    if base[..] == mem[..] {
        return Vec::new();
    }
    (0..0x10000usize)
        .filter(|a| base[*a] != mem[*a])
        .map(|a| (a as u16, mem[a]))
        .collect()
}

/// First difference between the real pause and the model state, as (kind, text).
fn pause_mismatch(p: &Pause, dbg: &Dbg, load_mem: &[u16; 0x10000]) -> Option<(String, String)> {
    if p.regs.pc != dbg.vm.pc {
        return Some(("pc".into(), format!("PC real x{:04x}, reference x{:04x}", p.regs.pc, dbg.vm.pc)));
    }
    if p.regs.reg != dbg.vm.reg {
        return Some((
            "registers".into(),
            format!("registers real {:04x?}, reference {:04x?}", p.regs.reg, dbg.vm.reg),
        ));
    }
    if p.regs.cc != dbg.vm.cc {
        return Some(("cc".into(), format!("CC real {:03b}, reference {:03b}", p.regs.cc, dbg.vm.cc)));
    }
    let expected = mem_diff(load_mem, &dbg.vm.mem);
    if p.mem_diff != expected {
        let pick = p
            .mem_diff
            .iter()
            .find(|x| !expected.contains(x))
            .or_else(|| expected.iter().find(|x| !p.mem_diff.contains(x)));
        let at = pick.map(|x| x.0).unwrap_or(0);
        let real = p.mem_diff.iter().find(|x| x.0 == at).map(|x| x.1).unwrap_or(load_mem[at as usize]);
        return Some((
            "memory".into(),
            format!("memory at x{:04x}: real {:04x}, reference {:04x}", at, real, dbg.vm.mem[at as usize]),
        ));
    }
    None
}

/// The reference adopts the real pause: registers, memory, breakpoints, the breakpoint paused
/// on, and the saved initial state.
fn resync(dbg: &mut Dbg, p: &Pause, load_mem: &[u16; 0x10000]) {
    let adopt = |vm: &mut crate::model::vm::Vm, regs: &lace::verif::Regs, diff: &[(u16, u16)]| {
        vm.reg = regs.reg;
        vm.pc = regs.pc;
        vm.cc = regs.cc;
        vm.mem.copy_from_slice(&load_mem[..]);
        for (addr, value) in diff {
            vm.mem[*addr as usize] = *value;
        }
    };
    adopt(&mut dbg.vm, &p.regs, &p.mem_diff);
    adopt(&mut dbg.initial, &p.init_regs, &p.init_mem_diff);
    dbg.bps = p.breakpoints.iter().map(|b| b.0).collect();
    dbg.paused_on_bp = p.current_breakpoint.filter(|a| *a == p.regs.pc);
}

fn bp_mismatch(p: &Pause, dbg: &Dbg) -> Option<(String, String)> {
    let real: Vec<u16> = p.breakpoints.iter().map(|b| b.0).collect();
    let mut sorted = real.clone();
    sorted.sort();
    sorted.dedup();
    if sorted != real {
        return Some(("list-not-sorted-unique".into(), format!("breakpoint list {:04x?}", real)));
    }
    let expected: Vec<u16> = dbg.bps.iter().copied().collect();
    if real != expected {
        return Some((
            "list-differs".into(),
            format!("breakpoint list real {:04x?}, reference {:04x?}", real, expected),
        ));
    }
    None
}

fn loc_form(l: &Loc) -> &'static str {
    match l {
        Loc::Abs(_) => "abs",
        Loc::Label { .. } => "label",
        Loc::Pc(_) => "pcoffset",
    }
}

fn target_form(t: &Target) -> &'static str {
    match t {
        Target::Reg(_) => "reg",
        Target::Mem(l) => loc_form(l),
    }
}

fn first_instr_class(vm: &Vm) -> &'static str {
    if !vm.in_user_space(vm.pc) {
        return "pc-outside";
    }
    let w = vm.mem[vm.pc as usize];
    match w >> 12 {
        0x0 => {
            let nzp = ((w >> 9) & 7) as u8;
            if nzp & vm.cc != 0 {
                "br-taken"
            } else {
                "br-not-taken"
            }
        }
        0x4 => "jsr",
        0xC => {
            if (w >> 6) & 7 == 7 {
                "ret"
            } else {
                "jmp"
            }
        }
        0xD => match (w >> 10) & 3 {
            3 => "call",
            2 => "rets",
            1 => "push",
            _ => "pop",
        },
        0xF => {
            if is_halt(w) {
                "halt"
            } else {
                "trap"
            }
        }
        _ => "plain",
    }
}

fn pc_class(vm_orig: u16, pc: u16, mem: &[u16; 0x10000]) -> &'static str {
    if pc == 0xFFFF {
        "0xFFFF"
    } else if pc < vm_orig {
        "below-origin"
    } else if pc >= USER_END {
        "above-user"
    } else if is_halt(mem[pc as usize]) {
        "on-halt"
    } else {
        "user"
    }
}

/// Policies worth trying for `cmd` in the state `dbg`, strict first.
fn candidate_policies(cmd: &Cmd, dbg: &Dbg) -> Vec<(Policy, &'static str)> {
    let mut out = vec![(Policy::STRICT, "")];
    match cmd {
        Cmd::StepOut if !dbg.vm.stack_enabled => {
            out.push((
                Policy {
                    step_out_refused_without_stack: false,
                    ..Policy::STRICT
                },
                "adopted:step_out_without_stack_runs",
            ));
        }
        Cmd::Eval(e) => {
            if let EvalKind::JumpLabel { label } = &e.kind {
                if let Some((_, addr)) = dbg.labels.iter().find(|(l, _)| l == label) {
                    let off = *addr as i64 - dbg.vm.pc as i64;
                    if !(-1000..=1000).contains(&off) {
                        out.push((
                            Policy {
                                eval_far_label_refused: true,
                                ..Policy::STRICT
                            },
                            "adopted:eval_far_label_refused",
                        ));
                    }
                }
            }
            if let EvalKind::LabelOp { label, .. } = &e.kind {
                if let Some((_, addr)) = dbg.labels.iter().find(|(l, _)| l == label) {
                    if dbg.eval_label_is_far(*addr) {
                        out.push((
                            Policy {
                                eval_far_label_refused: true,
                                ..Policy::STRICT
                            },
                            "adopted:eval_far_label_refused",
                        ));
                    }
                }
            }
        }
        _ => {}
    }
    if cmd.is_resume() && dbg.bps.contains(&dbg.vm.pc) && dbg.paused_on_bp != Some(dbg.vm.pc) {
        let base: Vec<(Policy, &'static str)> = out.clone();
        for (p, _) in base {
            out.push((
                Policy {
                    fresh_breakpoint_pauses_at_once: true,
                    ..p
                },
                "adopted:fresh_breakpoint_pauses_at_once",
            ));
        }
    }
    out
}

pub struct SessionCheck {
    pub violations: Vec<Violation>,
    pub discarded: Option<String>,
    pub plain: Option<Outcome>,
    pub debug: Option<Outcome>,
    /// Pauses strictly between the first and the last executed instruction.
    pub mid_pauses: u64,
    pub model_execs: u64,
    pub signature: u64,
    pub log_hash: u64,
}

fn stop_to_end(stop: &Option<Stop>) -> Option<End> {
    match stop {
        Some(Stop::Normal) => Some(End::Returned),
        Some(Stop::BelowOrigin) | Some(Stop::AboveUser) | Some(Stop::UnknownTrap(_)) => Some(End::Exit(0xEE)),
        Some(Stop::StackDisabled) | Some(Stop::InputEof) => Some(End::Exit(1)),
        _ => None,
    }
}

/// Which property owns a divergence observed right after `cmd`?
fn owner_of(cmd: &Cmd) -> &'static str {
    match cmd {
        Cmd::Step | Cmd::StepInto(_) | Cmd::StepOut | Cmd::Continue => "C10",
        Cmd::Move(..) | Cmd::Goto(_) | Cmd::BreakAdd(_) | Cmd::BreakRemove(_) => "C13",
        Cmd::Print(_) | Cmd::Registers | Cmd::Assembly(_) | Cmd::BreakList => "C13",
        Cmd::Eval(_) => "C15",
        Cmd::Reset => "C12",
        Cmd::Echo(_) | Cmd::Help | Cmd::Quit | Cmd::Exit => "C09",
        Cmd::Garbage(_) | Cmd::Sudo => "C14",
    }
}

/// Execute the scenario (plain run + debugger session) and evaluate every oracle.
pub fn check_session(cap: &Capture, scn: &DebugScenario, report: &mut Report) -> SessionCheck {
    let mut out = SessionCheck {
        violations: Vec::new(),
        discarded: None,
        plain: None,
        debug: None,
        mid_pauses: 0,
        model_execs: 0,
        signature: 0,
        log_hash: 0,
    };
    let source = scn.program.render();

    // ----- phase 1: plain run (no debugger) -----
    let plain_session = Session {
        image: Image::Source(source.clone()),
        stack: scn.stack,
        minimal: scn.minimal,
        debug: None,
        stdin: if scn.input_is_deliverable() || scn.input_follows_script() { scn.input.clone() } else { Vec::new() },
        tty_input: None,
        fuel: 60_000,
        max_idle: u64::MAX,
        max_commands: u64::MAX,
        log_exec: false,
    };
    let plain = run_session(cap, &plain_session);
    match &plain.end {
        End::Hang => {
            out.violations.push(Violation::new("C03", "C03/hang", "plain run did not come back within the hang guard"));
            return out;
        }
        End::AsmError(_) => {
            out.discarded = Some("asm-error".into());
            return out;
        }
        End::Fuel => {
            out.discarded = Some("plain-run-exceeds-budget".into());
            return out;
        }
        End::Panic(msg) if plain.load.is_none() => {
            out.discarded = Some(format!("asm-panic:{}", msg.split(" @ ").next().unwrap_or("")));
            return out;
        }
        _ => {}
    }
    let Some((load_regs, load_mem)) = &plain.load else {
        out.discarded = Some("load-failed".into());
        return out;
    };
    let load_regs = *load_regs;
    let orig = scn.program.origin();
    let n_words = scn.program.n_words();
    if load_regs.orig != orig || orig as usize + n_words >= 0x10000 {
        out.discarded = Some("origin-mismatch".into());
        return out;
    }
    let mut words = vec![orig];
    words.extend_from_slice(&load_mem[orig as usize..orig as usize + n_words]);
    let Ok(vm) = Vm::load(&words, scn.stack, scn.minimal) else {
        out.discarded = Some("model-load-failed".into());
        return out;
    };
    if vm.mem[..] != load_mem[..] || vm.reg != load_regs.reg || vm.pc != load_regs.pc {
        // Load-state defects belong to C03
        out.violations.push(Violation::new("C03", "C03/load/state", "load state differs from the reference"));
        return out;
    }

    let has_input = scn.input_is_deliverable();
    let model_input: Vec<u8> = if has_input { scn.input.clone() } else { Vec::new() };

    // ----- model pre-run (strict) to size the budget -----
    let labels = scn.program.labels();
    let breaks = scn.program.break_addrs();
    const MODEL_BUDGET: u64 = 120_000;
    let mut script: Vec<Item> = scn.script.clone();
    let ends_explicitly = script.iter().any(|i| matches!(i.cmd, Cmd::Quit | Cmd::Exit));
    if !ends_explicitly && scn.transport != Transport::Terminal {
        // End of input acts as `quit`
        script.push(Item {
            cmd: Cmd::Quit,
            spell: 0,
        });
    }
    let implicit_quit = !ends_explicitly && scn.transport != Transport::Terminal;
    {
        let mut pre = Dbg::new(vm.clone(), &breaks, labels.clone(), MODEL_BUDGET);
        pre.io = crate::model::vm::Io::with_input(&model_input);
        for item in &script {
            let tail = matches!(item.cmd, Cmd::Quit) && scn.input_follows_script();
            if tail {
                pre.io.input = scn.input.clone();
                pre.io.input_requests = 0;
            }
            let o = pre.apply(&item.cmd, Policy::STRICT);
            if pre.io.input_requests > 0 && !has_input && !tail {
                out.discarded = Some("input-trap-in-session".into());
                return out;
            }
            match o.after {
                After::Budget => {
                    out.discarded = Some("model-exceeds-budget".into());
                    return out;
                }
                After::Unspecified => {
                    out.discarded = Some("rti-unspecified".into());
                    return out;
                }
                After::Paused(_) => {}
                _ => break,
            }
        }
        out.model_execs = pre.executed_total;
    }
    let n_cmds = script.len() as u64 + 1;
    // Generous: adopted steps may make the real session longer than the strict pre-run. The
    // bound of C16 is evaluated after the fact from the lockstep counts.
    let fuel = 4 * (MODEL_BUDGET + n_cmds) + 64;

    // ----- phase 2: the real session -----
    let delivery = deliver(&scn.script, &scn.transport, scn.sep_seed);
    let session = Session {
        image: Image::Source(source),
        stack: scn.stack,
        minimal: scn.minimal,
        debug: Some(DebugCfg {
            arg: delivery.arg.clone(),
            terminal: delivery.terminal.clone(),
        }),
        tty_input: None,
        stdin: if has_input {
            scn.input.clone()
        } else if scn.input_follows_script() {
            let mut bytes = delivery.stdin.clone();
            if !matches!(bytes.last(), Some(b'\n') | Some(b';')) {
                bytes.push(b'\n');
            }
            bytes.extend_from_slice(&scn.input);
            bytes
        } else {
            delivery.stdin.clone()
        },
        fuel,
        max_idle: 24,
        // Every script line plus the implicit end of input, with slack for blank commands
        max_commands: 2 * (scn.script.len() as u64 + 4),
        log_exec: true,
    };
    let real = run_session(cap, &session);
    report.sim_ticks += plain.ticks + real.ticks;
    if real.end == End::Flood {
        out.violations.push(Violation::new(
            "C16",
            format!(
                "C16/commands-without-end/{}",
                match scn.transport {
                    Transport::Arg => "argument",
                    Transport::Stdin => "stdin",
                    Transport::Split(_) => "split",
                    Transport::Terminal => "terminal",
                }
            ),
            format!("the session read more than {} command lines from a script of {}: a reader hands out lines forever", 2 * (scn.script.len() + 4), scn.script.len()),
        ));
        return out;
    }
    if real.end == End::Hang {
        // Not even the simulated clock advances: lace loops inside one command or one read
        out.violations.push(Violation::new(
            "C16",
            "C16/hang/no-tick-no-command",
            format!("the session did not come back within {} s of wall-clock: endless loop outside the run loop", crate::world_a::HANG_GUARD_S),
        ));
        return out;
    }

    // ----- lockstep -----
    let mut dbg = Dbg::new(vm, &breaks, labels, MODEL_BUDGET);
    dbg.io = crate::model::vm::Io::with_input(&model_input);
    let events = &real.events;
    let mut ei = 0usize; // event cursor
    let mut execs_seen = 0u64;
    let mut attached = true;
    let mut stop_compare = false;
    let mut last_cmd: Option<Cmd> = None;
    let mut cmds_consumed = 0u64;
    let mut sig: Vec<u8> = Vec::new();
    let mut expected_end: Option<End> = None;
    let mut halt_executed_attached = false;
    let mut tail_input_active = false;
    let first_exec_total = real.execs;
    // After a divergence the reference adopts the real pause (everything the debugger and the
    // machine hold is in the snapshot) and the comparison goes on, so that every later command
    // is still judged - by the property that owns it - from the state it really started in
    let mut resyncs = 0u32;

    let push = |out: &mut SessionCheck, prop: &str, key: String, detail: String| {
        out.violations.push(Violation::new(prop, key, detail));
    };

    // Next pause in the log, counting the instructions executed before it
    let mut next_pause = |ei: &mut usize, execs_seen: &mut u64, attached: bool, halt_flag: &mut bool| -> Option<Box<Pause>> {
        while *ei < events.len() {
            match &events[*ei] {
                Event::Exec { instr, .. } => {
                    *execs_seen += 1;
                    if attached && is_halt(*instr) {
                        *halt_flag = true;
                    }
                    *ei += 1;
                }
                Event::Pause(p) => {
                    *ei += 1;
                    return Some(p.clone());
                }
                _ => return None,
            }
        }
        None
    };

    // The session starts paused at the load state
    let mut pause = next_pause(&mut ei, &mut execs_seen, attached, &mut halt_executed_attached);
    match &pause {
        None => {
            let key = match &real.end {
                End::Panic(_) => format!("C14/session-start/{}", end_key(&real.end)),
                other => format!("C10/session-start/no-initial-pause/{}", other.label()),
            };
            let prop = if key.starts_with("C14") { "C14" } else { "C10" };
            push(&mut out, prop, key, format!("no initial pause; session ended with {}", real.end.label()));
            stop_compare = true;
        }
        Some(p) => {
            if execs_seen != 0 {
                push(
                    &mut out,
                    "C11",
                    "C11/initial/instructions-before-first-pause".into(),
                    format!("{} instructions executed before the first pause", execs_seen),
                );
                stop_compare = true;
            } else if let Some((kind, text)) = bp_mismatch(p, &dbg) {
                push(&mut out, "C11", format!("C11/directive/{}", kind), format!("after load: {}", text));
                stop_compare = true;
            } else if let Some((kind, text)) = pause_mismatch(p, &dbg, load_mem) {
                push(&mut out, "C10", format!("C10/initial/{}", kind), text);
                stop_compare = true;
            }
        }
    }

    let mut idx = 0usize;
    while !stop_compare && idx < script.len() {
        let item = &script[idx];
        let is_implicit = implicit_quit && idx + 1 == script.len();
        idx += 1;
        let Some(p) = &pause else { break };

        // C12 (model-free): the saved initial state can never change
        if p.init_regs != load_regs || !p.init_mem_diff.is_empty() {
            push(
                &mut out,
                "C12",
                "C12/saved-initial-state-altered".into(),
                format!(
                    "saved initial state differs from the load state before `{}` (regs {:04x?}, {} words)",
                    item.render(),
                    p.init_regs.reg,
                    p.init_mem_diff.len()
                ),
            );
        }

        // ----- the command is read: error or accepted -----
        let rejected = parse_rejected(&item.cmd);
        let ev = events.get(ei);
        match (ev, rejected) {
            (Some(Event::CmdError(_)), true) => {
                ei += 1;
                report.hit("fault:rejected_line");
                sig.push(0xEE);
                // Same pause continues with the next command
                continue;
            }
            (Some(Event::CmdError(text)), false) => {
                push(
                    &mut out,
                    "C14",
                    format!("C14/valid-rejected/{}", item.cmd.kind_name()),
                    format!("`{}` was rejected: {}", item.render(), text.lines().next().unwrap_or("")),
                );
                break;
            }
            (Some(Event::Cmd(text)), true) => {
                push(
                    &mut out,
                    "C14",
                    format!("C14/invalid-accepted/{}", item.cmd.kind_name()),
                    format!("`{}` should be rejected but parsed as {}", item.render(), text),
                );
                break;
            }
            (Some(Event::Cmd(text)), false) => {
                ei += 1;
                cmds_consumed += 1;
                // The rendering of the parsed command, judged against how this very tree
                // renders that command shape (learned by a calibration session)
                match vocabulary(cap) {
                    Some(vocab) => {
                        report.hit("probe:command_rendering_calibrated");
                        if let Some(template) = vocab.get(&shape_key(&item.cmd)) {
                            if let (Err(what), false) = (rendering_agrees(template, &item.cmd, text), is_implicit) {
                                push(
                                    &mut out,
                                    "C14",
                                    format!("C14/parse/{}", item.cmd.kind_name()),
                                    format!("`{}` parsed as {}: {}", item.render(), text, what),
                                );
                            }
                        }
                    }
                    None => report.hit("probe:command_rendering_not_calibrated"),
                }
            }
            (other, _) => {
                // The session ended (or derailed) while this line was being read
                let (prop, key) = match &real.end {
                    End::Exit(0) if matches!(item.cmd, Cmd::Sudo) => ("C14", "C14/effect/name=sudo".to_string()),
                    End::Panic(_) => ("C14", format!("C14/{}/{}", item.cmd.kind_name(), end_key(&real.end))),
                    End::Spin => (
                        "C16",
                        format!("C16/spin/pc={}/reading-command", pc_class(orig, dbg.vm.pc, &dbg.vm.mem)),
                    ),
                    End::KeysExhausted if scn.transport == Transport::Terminal => {
                        ("C14", "C14/terminal/keys-not-delivered".to_string())
                    }
                    _ => ("C14", format!("C14/{}/session-ended/{}", item.cmd.kind_name(), real.end.label())),
                };
                push(
                    &mut out,
                    prop,
                    key,
                    format!(
                        "reading `{}`: expected a command event, found {:?}; session ended with {}",
                        item.render(),
                        other.map(|e| format!("{:?}", e).chars().take(60).collect::<String>()),
                        real.end.label()
                    ),
                );
                stop_compare = true;
                break;
            }
        }
        last_cmd = Some(item.cmd.clone());
        sig.push(fnv(item.cmd.kind_name().as_bytes()) as u8);

        // ----- the command takes effect: model candidates vs the real next pause -----
        if matches!(item.cmd, Cmd::Quit) && scn.input_follows_script() && !is_implicit {
            // From here on the rest of the stream is the program's
            dbg.io.input = scn.input.clone();
            dbg.io.input_pos = 0;
            dbg.io.input_requests = 0;
            tail_input_active = true;
        }
        let before = dbg.clone();
        let class = first_instr_class(&before.vm);
        let execs_before = execs_seen;
        let candidates = candidate_policies(&item.cmd, &before);

        // What the real system did next
        let still_attached = attached && !matches!(item.cmd, Cmd::Quit | Cmd::Exit);
        let next = next_pause(&mut ei, &mut execs_seen, still_attached, &mut halt_executed_attached);
        let real_executed = execs_seen - execs_before;

        let mut chosen: Option<(Dbg, MOutcome, &'static str)> = None;
        let mut strict: Option<(Dbg, MOutcome)> = None;
        for (policy, tag) in candidates {
            let mut d = before.clone();
            let o = d.apply(&item.cmd, policy);
            // The link value written by an evaluated JSR/JSRR is left unspecified: take the real one
            if let (Cmd::Eval(e), Some(p)) = (&item.cmd, &next) {
                if matches!(e.kind, EvalKind::JumpLabel { .. } | EvalKind::JumpReg { .. }) && !o.refused {
                    d.vm.reg[7] = p.regs.reg[7];
                    report.hit("adopted:eval_link_value");
                }
            }
            if strict.is_none() {
                strict = Some((d.clone(), o.clone()));
            }
            let matches = match (&o.after, &next) {
                (After::Paused(_), Some(p)) => {
                    o.executed == real_executed && pause_mismatch(p, &d, load_mem).is_none() && bp_mismatch(p, &d).is_none()
                }
                (After::Paused(_), None) => false,
                // Non-pausing outcomes are compared below, once
                _ => true,
            };
            if matches {
                chosen = Some((d, o, tag));
                break;
            }
        }
        let (model_after, outcome, tag) = match chosen {
            Some(c) => c,
            None => {
                let (d, o) = strict.expect("at least the strict policy");
                (d, o, "")
            }
        };
        if !tag.is_empty() {
            report.hit(tag);
        }
        sig.push((outcome.executed.min(255)) as u8);
        if outcome.refused && !rejected {
            report.hit(&format!("probe:refused_{}", item.cmd.kind_name()));
        }

        if model_after.io.input_requests > 0 && !has_input && !tail_input_active {
            if resyncs > 0 {
                stop_compare = true;
                break;
            }
            // The debugger and the program share one input stream; a program that reads input
            // (here: after a `move` planted an input trap) is outside the modelled sessions
            out.discarded = Some("input-trap-in-session".into());
            return out;
        }
        match &outcome.after {
            After::Budget | After::Unspecified => {
                if resyncs > 0 {
                    stop_compare = true;
                    break;
                }
                out.discarded = Some("model-budget-or-unspecified".into());
                return out;
            }
            After::Paused(reason) => {
                match reason {
                    PauseReason::Breakpoint(_) => report.hit("probe:pause_at_breakpoint"),
                    PauseReason::Halt => report.hit("probe:pause_at_halt"),
                    PauseReason::OutOfBounds => {
                        report.hit("probe:pause_outside_user_space");
                        if model_after.vm.pc == 0xFFFF {
                            report.hit("probe:pc_0xFFFF_under_debugger");
                        }
                    }
                    _ => {}
                }
                let Some(p) = &next else {
                    if resyncs > 0 && matches!(real.end, End::Fuel) {
                        // The tick budget was sized for the reference's path, which the
                        // session left at the earlier divergence
                        stop_compare = true;
                        break;
                    }
                    // The real session did not pause again
                    let (prop, key) = diagnose_no_pause(&item.cmd, class, &real, orig, &before, reason);
                    push(
                        &mut out,
                        prop,
                        key,
                        format!(
                            "after `{}` at PC x{:04x} the reference pauses ({:?}) after {} instructions; the real session ran {} more and ended with {}",
                            item.render(),
                            before.vm.pc,
                            reason,
                            outcome.executed,
                            real_executed,
                            real.end.label()
                        ),
                    );
                    stop_compare = true;
                    break;
                };
                // Compare
                let mism = if outcome.executed != real_executed {
                    Some((
                        if real_executed > outcome.executed { "ran-further" } else { "stopped-early" }.to_string(),
                        format!(
                            "executed {} instructions, reference {} ({:?}); real PC x{:04x}, reference PC x{:04x}",
                            real_executed, outcome.executed, reason, p.regs.pc, model_after.vm.pc
                        ),
                    ))
                } else {
                    pause_mismatch(p, &model_after, load_mem)
                };
                let bpm = bp_mismatch(p, &model_after);
                if mism.is_some() || bpm.is_some() {
                    let (prop, key) = diagnose(&item.cmd, class, &before, &model_after, &outcome, &mism, &bpm, p, real_executed);
                    let text = mism.map(|m| m.1).or(bpm.map(|b| b.1)).unwrap_or_default();
                    push(
                        &mut out,
                        prop,
                        key,
                        format!("after `{}` at PC x{:04x}: {}", item.render(), before.vm.pc, text),
                    );
                    let list_ok = bp_mismatch(p, &model_after).map(|b| b.0 != "list-not-sorted-unique").unwrap_or(true);
                    if resyncs < 4 && list_ok && !has_input && !tail_input_active && model_after.io.input_requests == 0 {
                        resyncs += 1;
                        report.hit("probe:resynchronised_after_divergence");
                        let mut adopted = model_after;
                        resync(&mut adopted, p, load_mem);
                        dbg = adopted;
                        pause = next;
                        continue;
                    }
                    stop_compare = true;
                    break;
                }
                if real_executed > 0 && p.regs.pc != orig {
                    out.mid_pauses += 1;
                }
                dbg = model_after;
                pause = next;
            }
            After::Exited(code) => {
                dbg = model_after;
                expected_end = Some(End::Exit(*code));
                if next.is_some() || outcome.executed != real_executed {
                    push(
                        &mut out,
                        owner_of(&item.cmd),
                        format!("{}/{}/expected-exit", owner_of(&item.cmd), item.cmd.kind_name()),
                        format!(
                            "after `{}` the reference exits with {} after {} instructions; real executed {}",
                            item.render(),
                            code,
                            outcome.executed,
                            real_executed
                        ),
                    );
                    stop_compare = true;
                }
                pause = None;
                break;
            }
            After::SessionExit => {
                dbg = model_after;
                expected_end = Some(End::Returned);
                if next.is_some() || real_executed != 0 {
                    push(
                        &mut out,
                        "C10",
                        "C10/exit/session-continued".into(),
                        format!("after `exit` the real session executed {} more instructions", real_executed),
                    );
                    stop_compare = true;
                }
                pause = None;
                break;
            }
            After::Detached(stop) => {
                attached = false;
                dbg = model_after;
                expected_end = stop_to_end(stop);
                if next.is_some() || outcome.executed != real_executed {
                    let prop = if scn.script.iter().all(|i| i.cmd.is_transparent()) { "C09" } else { "C03" };
                    push(
                        &mut out,
                        prop,
                        format!("{}/after-detach/instruction-count", prop),
                        format!(
                            "after detaching the reference runs {} instructions to {:?}; real ran {}",
                            outcome.executed, stop, real_executed
                        ),
                    );
                    stop_compare = true;
                }
                pause = None;
                break;
            }
        }
    }

    // ----- end of session -----
    if !stop_compare {
        if let Some(expected) = &expected_end {
            if !crate::world_a::end_agrees(&real.end, expected) {
                let (prop, key) = match &real.end {
                    End::Spin => (
                        "C16",
                        format!(
                            "C16/spin/pc={}/after={}",
                            pc_class(orig, real.fin.as_ref().map(|f| f.0.pc).unwrap_or(0), &dbg.vm.mem),
                            last_cmd.as_ref().map(|c| c.kind_name()).unwrap_or("none")
                        ),
                    ),
                    End::Fuel => ("C16", "C16/no-termination-within-budget".to_string()),
                    End::Panic(_) => {
                        let owner = last_cmd.as_ref().map(owner_of).unwrap_or("C10");
                        (owner, format!("{}/{}", owner, end_key(&real.end)))
                    }
                    other => ("C10", format!("C10/end/expected={}/real={}", expected.label(), other.label())),
                };
                push(
                    &mut out,
                    prop,
                    key,
                    format!("session should end with {}, ended with {}", expected.label(), real.end.label()),
                );
            } else if let Some((fregs, fmem)) = &real.fin {
                // Final machine state
                let same = fregs.pc == dbg.vm.pc && fregs.reg == dbg.vm.reg && fregs.cc == dbg.vm.cc && fmem[..] == dbg.vm.mem[..];
                if !same {
                    let prop = if attached { "C10" } else if scn.script.iter().all(|i| i.cmd.is_transparent()) { "C09" } else { "C03" };
                    push(
                        &mut out,
                        prop,
                        format!("{}/final-state", prop),
                        format!(
                            "final state differs: PC real x{:04x} reference x{:04x}, regs real {:04x?} reference {:04x?}",
                            fregs.pc, dbg.vm.pc, fregs.reg, dbg.vm.reg
                        ),
                    );
                }
            }
        } else if idx >= script.len() && scn.transport == Transport::Terminal {
            // Terminal sessions without quit/exit end when the keys run out: nothing to compare
        }
    }

    // ----- program output of the whole session against the reference -----
    // (transparent scripts are judged model-free by C09 below; here the reference's output
    // stream, including what evaluated traps print, must equal stdout)
    if !stop_compare
        && out.violations.is_empty()
        && scn.transport != Transport::Terminal
        // (register dumps are matched by their values; a PUTS terminator with two readings or an
        // unspecified character leaves the rest of this session's output unjudged)
        && dbg.io.adopted_at.is_none()
        && dbg.io.puts_ambiguous_at.is_none()
        && !matches!(real.end, End::Spin | End::Fuel | End::KeysExhausted | End::Hang | End::Flood)
        && expected_end.as_ref().is_some_and(|e| crate::world_a::end_agrees(&real.end, e))
        && dbg.io.output_matches(&real.stdout).is_err()
    {
        let has_eval_output = scn.script.iter().any(|i| matches!(&i.cmd, Cmd::Eval(e) if matches!(e.kind, EvalKind::Word(w) if w >> 12 == 0xF)));
        let has_reset = scn.script.iter().any(|i| matches!(i.cmd, Cmd::Reset));
        let prop = if scn.script.iter().all(|i| i.cmd.is_transparent()) {
            "C09"
        } else if has_eval_output {
            "C15"
        } else if has_reset {
            "C12"
        } else {
            "C10"
        };
        let at = (0..real.stdout.len().max(dbg.io.output.len()))
            .find(|i| real.stdout.get(*i) != dbg.io.output.get(*i))
            .unwrap_or(0);
        push(
            &mut out,
            prop,
            format!("{}/stdout-vs-reference", prop),
            format!(
                "program output of the session differs from the reference at byte {}: real {:?}, reference {:?}",
                at,
                String::from_utf8_lossy(&real.stdout[at.saturating_sub(6).min(real.stdout.len())..(at + 12).min(real.stdout.len())]),
                String::from_utf8_lossy(&dbg.io.output[at.saturating_sub(6).min(dbg.io.output.len())..(at + 12).min(dbg.io.output.len())])
            ),
        );
    }

    // ----- C10: HALT is never executed while the debugger is attached -----
    if halt_executed_attached {
        push(
            &mut out,
            "C10",
            "C10/halt-executed-while-attached".into(),
            "a HALT instruction was executed while the debugger was attached".into(),
        );
    }

    // ----- C16: progress -----
    match &real.end {
        End::Spin if !out.violations.iter().any(|v| v.prop == "C16") => {
            let pc = real.fin.as_ref().map(|f| f.0.pc).unwrap_or(0);
            push(
                &mut out,
                "C16",
                format!(
                    "C16/spin/pc={}/after={}",
                    pc_class(orig, pc, &dbg.vm.mem),
                    last_cmd.as_ref().map(|c| c.kind_name()).unwrap_or("none")
                ),
                format!("{} run-loop iterations in a row executed nothing and read nothing at PC x{:04x}", real.max_idle_seen, pc),
            );
        }
        // Only meaningful while the session still followed the reference: after an earlier
        // divergence the real machine may legitimately be in an endless loop of its own
        End::Fuel if out.violations.is_empty() => {
            let model_execs = out.model_execs;
            push(
                &mut out,
                "C16",
                "C16/no-termination-within-budget".into(),
                format!("session used its {} ticks without ending (reference executes {} instructions)", fuel, model_execs),
            );
        }
        _ => {}
    }
    if !matches!(real.end, End::Spin | End::Fuel) && out.violations.is_empty() {
        let bound = 4 * (first_exec_total + cmds_consumed + 1) + 64;
        if real.ticks > bound {
            push(
                &mut out,
                "C16",
                "C16/work-not-bounded".into(),
                format!(
                    "{} run-loop iterations for {} instructions and {} commands (bound {})",
                    real.ticks, first_exec_total, cmds_consumed, bound
                ),
            );
        }
    }
    report.count("probe:max_idle_ticks_seen_ge2", (real.max_idle_seen >= 2) as u64);
    if dbg.io.input_requests > 0 {
        report.hit("probe:input_trap_executed_in_session");
    }

    // ----- C09: transparency (model-free differential) -----
    let transparent = scn.script.iter().all(|i| i.cmd.is_transparent());
    // The session must end by detaching (`quit` or end of input), not by `exit` or by the user
    // walking away from the terminal
    let has_quit = scn.script.iter().any(|i| matches!(i.cmd, Cmd::Quit));
    let detaches = has_quit || scn.transport != Transport::Terminal;
    if transparent && detaches && !matches!(real.end, End::Spin | End::Fuel | End::KeysExhausted) {
        if real.end != plain.end {
            push(
                &mut out,
                "C09",
                format!("C09/end/plain={}/debug={}", end_key(&plain.end), end_key(&real.end)),
                format!("plain run ended with {}, debugged run with {}", plain.end.label(), real.end.label()),
            );
        } else {
            if scn.transport != Transport::Terminal && real.stdout != plain.stdout {
                let at = (0..real.stdout.len().max(plain.stdout.len()))
                    .find(|i| real.stdout.get(*i) != plain.stdout.get(*i))
                    .unwrap_or(0);
                push(
                    &mut out,
                    "C09",
                    "C09/stdout".into(),
                    format!(
                        "program output differs at byte {}: plain {:?}, debugged {:?}",
                        at,
                        String::from_utf8_lossy(&plain.stdout[at.saturating_sub(6).min(plain.stdout.len())..(at + 12).min(plain.stdout.len())]),
                        String::from_utf8_lossy(&real.stdout[at.saturating_sub(6).min(real.stdout.len())..(at + 12).min(real.stdout.len())])
                    ),
                );
            }
            if let (Some((pr, pm)), Some((dr, dm))) = (&plain.fin, &real.fin) {
                if pr.reg != dr.reg {
                    push(&mut out, "C09", "C09/final/registers".into(), format!("final registers plain {:04x?}, debugged {:04x?}", pr.reg, dr.reg));
                }
                if pr.pc != dr.pc || pr.cc != dr.cc {
                    push(&mut out, "C09", "C09/final/pc-cc".into(), format!("final PC/CC plain {:04x}/{:03b}, debugged {:04x}/{:03b}", pr.pc, pr.cc, dr.pc, dr.cc));
                }
                if pm[..] != dm[..] {
                    let at = (0..0x10000).find(|a| pm[*a] != dm[*a]).unwrap();
                    push(&mut out, "C09", "C09/final/memory".into(), format!("final memory differs at x{:04x}: plain {:04x}, debugged {:04x}", at, pm[at], dm[at]));
                }
            }
        }
    }

    // A session that dies in a panic while everything it has read are execution-control and
    // inspection commands is not transparent, however the script would have gone on: the same
    // commands followed by end of input are a script C09 quantifies over
    if let (End::Panic(_), false) = (&real.end, matches!(plain.end, End::Panic(_))) {
        let consumed = idx.min(script.len());
        if consumed > 0 && script[..consumed].iter().all(|i| i.cmd.is_transparent()) && !out.violations.iter().any(|v| v.prop == "C09") {
            let last = script[consumed - 1].cmd.kind_name();
            push(
                &mut out,
                "C09",
                format!("C09/{}/{}", last, end_key(&real.end)),
                format!(
                    "after {} transparent commands (last: `{}`) the session ended with {}; the plain run ends with {}",
                    consumed,
                    script[consumed - 1].render(),
                    real.end.label(),
                    plain.end.label()
                ),
            );
        }
    }

    // Signature and fingerprint
    sig.extend_from_slice(real.end.label().as_bytes());
    sig.push(match scn.transport {
        Transport::Arg => 1,
        Transport::Stdin => 2,
        Transport::Split(_) => 3,
        Transport::Terminal => 4,
    });
    out.signature = fnv(&sig);
    let mut h: Vec<u8> = Vec::new();
    h.extend_from_slice(real.end.label().as_bytes());
    h.extend_from_slice(&real.stdout);
    h.extend_from_slice(&real.stderr);
    for e in &real.events {
        match e {
            Event::Exec { pc, instr } => {
                h.extend_from_slice(&pc.to_le_bytes());
                h.extend_from_slice(&instr.to_le_bytes());
            }
            other => h.extend_from_slice(format!("{:?}", other).as_bytes()),
        }
    }
    out.log_hash = fnv(&h);
    out.plain = Some(plain);
    out.debug = Some(real);
    out
}

/// The reference pauses but the real session never paused again.
fn diagnose_no_pause(
    cmd: &Cmd,
    class: &str,
    real: &Outcome,
    orig: u16,
    before: &Dbg,
    reason: &PauseReason,
) -> (&'static str, String) {
    match &real.end {
        End::Spin => {
            let pc = real.fin.as_ref().map(|f| f.0.pc).unwrap_or(before.vm.pc);
            (
                "C16",
                format!("C16/spin/pc={}/after={}", pc_class(orig, pc, &before.vm.mem), cmd.kind_name()),
            )
        }
        End::Fuel => ("C16", format!("C16/no-termination-within-budget/after={}", cmd.kind_name())),
        End::Panic(_) => {
            let pc_out = !before.vm.in_user_space(before.vm.pc);
            if cmd.is_resume() && pc_out {
                ("C16", format!("C16/{}/pc-outside/{}", cmd.kind_name(), end_key(&real.end)))
            } else {
                let owner = owner_of(cmd);
                (owner, format!("{}/{}/{}", owner, cmd.kind_name(), end_key(&real.end)))
            }
        }
        _ => match reason {
            PauseReason::Breakpoint(_) => ("C11", format!("C11/missed-breakpoint/{}", cmd.kind_name())),
            PauseReason::Halt => ("C10", format!("C10/{}/ran-through-halt", cmd.kind_name())),
            _ => {
                let owner = owner_of(cmd);
                (owner, format!("{}/{}/first={}/never-paused-again", owner, cmd.kind_name(), class))
            }
        },
    }
}

#[allow(clippy::too_many_arguments)]
fn diagnose(
    cmd: &Cmd,
    class: &str,
    before: &Dbg,
    after: &Dbg,
    outcome: &MOutcome,
    mism: &Option<(String, String)>,
    bpm: &Option<(String, String)>,
    real: &Pause,
    real_executed: u64,
) -> (&'static str, String) {
    let what = mism.as_ref().map(|m| m.0.as_str()).unwrap_or("");
    match cmd {
        Cmd::Step | Cmd::StepInto(_) | Cmd::StepOut | Cmd::Continue => {
            // Breakpoint involvement makes it C11's
            if let After::Paused(PauseReason::Breakpoint(a)) = &outcome.after {
                if what == "ran-further" || (what == "pc" && real.regs.pc != *a) {
                    return ("C11", format!("C11/missed-breakpoint/{}", cmd.kind_name()));
                }
            }
            if what == "stopped-early" && before.bps.contains(&real.regs.pc) && !after.bps.contains(&real.regs.pc) {
                return ("C11", format!("C11/removed-breakpoint-fired/{}", cmd.kind_name()));
            }
            if what == "stopped-early" && real.breakpoints.iter().any(|b| b.0 == real.regs.pc) && !after.bps.contains(&real.regs.pc) {
                return ("C11", format!("C11/spurious-breakpoint/{}", cmd.kind_name()));
            }
            if bpm.is_some() && mism.is_none() {
                return ("C11", format!("C11/list-changed-by/{}", cmd.kind_name()));
            }
            if matches!(cmd, Cmd::Step) && class_is_call(before) {
                // Would the first-arrival reading explain it?
                let mut alt = before.clone();
                let o = alt.apply(
                    cmd,
                    Policy {
                        step_over: StepOverPolicy::FirstArrival,
                        ..Policy::STRICT
                    },
                );
                if o.executed == real_executed && alt.vm.pc == real.regs.pc && alt.vm.reg == real.regs.reg {
                    return ("C10", "C10/step/call/paused-at-inner-return-of-recursion".to_string());
                }
            }
            if what == "ran-further" {
                if let After::Paused(PauseReason::Halt) = &outcome.after {
                    return ("C10", format!("C10/{}/ran-through-halt", cmd.kind_name()));
                }
                if let After::Paused(PauseReason::OutOfBounds) = &outcome.after {
                    return ("C10", format!("C10/{}/ran-outside-user-space", cmd.kind_name()));
                }
            }
            ("C10", format!("C10/{}/first={}/{}", cmd.kind_name(), class, what))
        }
        Cmd::Move(t, _) => {
            let form = target_form(t);
            let key = if outcome.refused && mism.is_some() {
                format!("C13/move/{}/accepted-outside-user-space", form)
            } else if !outcome.refused && mism.is_some() && unchanged(real, before) {
                format!("C13/move/{}/refused-in-range/{}", form, region(after, t))
            } else {
                format!("C13/move/{}/wrong-effect/{}", form, what)
            };
            ("C13", key)
        }
        Cmd::Goto(l) => {
            let form = loc_form(l);
            let key = if outcome.refused {
                format!("C13/goto/{}/accepted-outside-user-space", form)
            } else if real.regs.pc == before.vm.pc {
                format!("C13/goto/{}/refused-in-range/{}", form, addr_region(after.vm.pc))
            } else {
                format!("C13/goto/{}/wrong-effect/{}", form, what)
            };
            ("C13", key)
        }
        Cmd::BreakAdd(l) | Cmd::BreakRemove(l) => {
            let form = loc_form(l);
            if let Some((kind, _)) = bpm {
                if kind == "list-not-sorted-unique" {
                    return ("C11", "C11/list-not-sorted-unique".to_string());
                }
                let real_list: Vec<u16> = real.breakpoints.iter().map(|b| b.0).collect();
                let before_list: Vec<u16> = before.bps.iter().copied().collect();
                let key = if outcome.refused {
                    format!("C13/{}/{}/accepted-outside-user-space", cmd.kind_name(), form)
                } else if real_list == before_list {
                    let target = after
                        .bps
                        .symmetric_difference(&before.bps)
                        .next()
                        .copied()
                        .unwrap_or(0);
                    format!("C13/{}/{}/refused-in-range/{}", cmd.kind_name(), form, addr_region(target))
                } else {
                    format!("C13/{}/{}/wrong-address", cmd.kind_name(), form)
                };
                return ("C13", key);
            }
            ("C13", format!("C13/{}/{}/machine-changed/{}", cmd.kind_name(), form, what))
        }
        Cmd::Print(_) | Cmd::Registers | Cmd::Assembly(_) | Cmd::BreakList => {
            ("C13", format!("C13/{}/changed-state/{}", cmd.kind_name(), if mism.is_some() { what } else { "breakpoints" }))
        }
        Cmd::Eval(e) => {
            let kind = match &e.kind {
                EvalKind::Word(w) => format!("word/op={:x}", w >> 12),
                EvalKind::LabelOp { op, .. } => format!(
                    "label/op={:x}/{}",
                    op,
                    if before.vm.pc == before.orig() { "pc=origin" } else { "pc!=origin" }
                ),
                EvalKind::JumpLabel { .. } => "jsr-label".to_string(),
                EvalKind::JumpReg { .. } => "jsrr-reg".to_string(),
                EvalKind::Refused => "refused-form".to_string(),
            };
            let effect = if unchanged(real, before) && !outcome.refused { "no-effect" } else if outcome.refused { "took-effect" } else { what };
            ("C15", format!("C15/{}/{}", kind, effect))
        }
        Cmd::Reset => ("C12", format!("C12/reset/{}", if mism.is_some() { what } else { "breakpoints" })),
        other => {
            let owner = owner_of(other);
            (owner, format!("{}/{}/changed-state/{}", owner, other.kind_name(), what))
        }
    }
}

fn class_is_call(d: &Dbg) -> bool {
    d.vm.in_user_space(d.vm.pc) && is_call(d.vm.mem[d.vm.pc as usize], d.vm.stack_enabled)
}

fn unchanged(real: &Pause, before: &Dbg) -> bool {
    real.regs.pc == before.vm.pc && real.regs.reg == before.vm.reg && real.regs.cc == before.vm.cc
}

fn addr_region(a: u16) -> &'static str {
    if a >= 0x8000 {
        "addr>=0x8000"
    } else {
        "addr<0x8000"
    }
}

fn region(after: &Dbg, t: &Target) -> &'static str {
    match t {
        Target::Reg(_) => "reg",
        Target::Mem(l) => match after.resolve(l, true) {
            Some(a) => addr_region(a),
            None => "unresolved",
        },
    }
}

/// Execute the scenario's script through another transport (no oracle): used by C14's
/// transport-independence comparison.
pub fn run_delivery(cap: &Capture, scn: &DebugScenario, transport: &Transport, sep_seed: u64, script: &[Item]) -> Outcome {
    let delivery = deliver(script, transport, sep_seed);
    let session = Session {
        image: Image::Source(scn.program.render()),
        stack: scn.stack,
        minimal: scn.minimal,
        debug: Some(DebugCfg {
            arg: delivery.arg,
            terminal: delivery.terminal,
        }),
        tty_input: None,
        stdin: if *transport == Transport::Arg && scn.input_is_deliverable() { scn.input.clone() } else { delivery.stdin },
        fuel: 4 * (120_000 + script.len() as u64 + 1) + 64,
        max_idle: 24,
        max_commands: 2 * (script.len() as u64 + 4),
        log_exec: true,
    };
    run_session(cap, &session)
}

/// The meaning of a session, independent of ticks and of how commands arrived: accepted
/// commands, rejected lines, pause snapshots, instruction counts between them.
pub fn meaning(outcome: &Outcome) -> Vec<String> {
    let mut out = Vec::new();
    let mut execs = 0u64;
    for e in &outcome.events {
        match e {
            Event::Exec { .. } => execs += 1,
            Event::Pause(p) => {
                out.push(format!(
                    "pause execs={} regs={:04x?} pc={:04x} cc={} mem={:04x?} bps={:04x?} init_ok={}",
                    execs,
                    p.regs.reg,
                    p.regs.pc,
                    p.regs.cc,
                    p.mem_diff,
                    p.breakpoints,
                    p.init_mem_diff.is_empty()
                ));
            }
            Event::Cmd(text) => out.push(format!("cmd {}", text)),
            Event::CmdError(text) => out.push(format!("error {}", text)),
        }
    }
    out.push(format!("end {} execs={}", outcome.end.label(), execs));
    if let Some((regs, _)) = &outcome.fin {
        out.push(format!("final regs={:04x?} pc={:04x} cc={}", regs.reg, regs.pc, regs.cc));
    }
    out
}
