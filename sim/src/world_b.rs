//! World B: the shipped `lace` binary (built from /repo with the guard OFF) as a process. The
//! simulator owns argv, environment, stdin bytes, the contents of a private scratch directory,
//! resource limits and — through the LD_PRELOAD shim `faultfs.so` — the outcome of every file
//! system call on that directory. With those fixed a single-threaded process is a
//! deterministic function of them; wall-clock appears only as a hang guard.

use std::io::Write as _;
use std::os::unix::process::{CommandExt, ExitStatusExt};
use std::path::{Path, PathBuf};
use std::process::{Command, Stdio};
use std::str::FromStr;
use std::time::{Duration, Instant};

use crate::engine::verif_dir;

pub fn lace_bin() -> PathBuf {
    // The release-profile sample of the thorough tier runs the release binary
    if cfg!(debug_assertions) {
        verif_dir().join("sim/target/cli/debug/lace")
    } else {
        verif_dir().join("sim/target/cli/release/lace")
    }
}

pub fn shim_path() -> PathBuf {
    verif_dir().join("sim/target/faultfs.so")
}

pub struct Scratch {
    pub dir: PathBuf,
}

impl Scratch {
    pub fn new(tag: &str) -> Scratch {
        static COUNTER: std::sync::atomic::AtomicU64 = std::sync::atomic::AtomicU64::new(0);
        let n = COUNTER.fetch_add(1, std::sync::atomic::Ordering::Relaxed);
        let base = if Path::new("/dev/shm").is_dir() {
            PathBuf::from("/dev/shm")
        } else {
            std::env::temp_dir()
        };
        let dir = base.join(format!("lace-simb-{}-{}-{}", tag, std::process::id(), n));
        let _ = std::fs::remove_dir_all(&dir);
        std::fs::create_dir_all(&dir).expect("scratch dir");
        Scratch { dir }
    }
    pub fn path(&self, name: &str) -> PathBuf {
        self.dir.join(name)
    }
}

impl Drop for Scratch {
    fn drop(&mut self) {
        let _ = std::fs::remove_dir_all(&self.dir);
    }
}

#[derive(Debug, Clone)]
pub struct Proc {
    /// Exit status, if the process exited.
    pub status: Option<i32>,
    pub signal: Option<i32>,
    pub stdout: Vec<u8>,
    pub stderr: Vec<u8>,
    pub hang: bool,
    /// Lines of the shim's log.
    pub shim_log: Vec<String>,
}

impl Proc {
    pub fn label(&self) -> String {
        if self.hang {
            "hang".into()
        } else if let Some(s) = self.signal {
            format!("signal({})", s)
        } else {
            format!("exit({})", self.status.unwrap_or(-1))
        }
    }
    /// Number of mutating calls the shim counted.
    pub fn mutating_calls(&self) -> usize {
        self.shim_log.iter().filter(|l| l.starts_with("m ")).count()
    }
    pub fn reads(&self) -> usize {
        self.shim_log.iter().filter(|l| l.starts_with("r ")).count()
    }
    pub fn faults_fired(&self) -> usize {
        self.shim_log.iter().filter(|l| l.starts_with("F ")).count()
    }
}

pub struct Run<'a> {
    pub args: Vec<std::ffi::OsString>,
    pub cwd: &'a Path,
    pub stdin: &'a [u8],
    /// Fault plan for the shim (None: no shim at all).
    pub plan: Option<String>,
    /// Directory the shim watches.
    pub watch: Option<&'a Path>,
    pub rlimit_fsize: Option<u64>,
}

thread_local! {
    /// Leftover of an earlier, killed process *with the process id the next child will have*:
    /// (path prefix, contents) - the file `<prefix>.<pid>.tmp` is planted before `lace` starts.
    pub static STALE_FOR_PID: std::cell::RefCell<Option<(PathBuf, Vec<u8>)>> = const { std::cell::RefCell::new(None) };
}

/// How the shipped binary frames a program's output on standard output: learned from one run
/// of a calibration program on the current tree, so that rewording a status line is not taken
/// for a change of program output.
#[derive(Debug, Clone)]
pub struct Framing {
    /// The last status line before the program's output (with its newline).
    pub before: Vec<u8>,
    /// The same for an object file, where the wording differs.
    pub before_object: Option<Vec<u8>>,
    /// What follows the program's output, up to where the file name is printed.
    pub after: Option<Vec<u8>>,
}

pub fn framing() -> &'static Framing {
    static FRAMING: std::sync::OnceLock<Framing> = std::sync::OnceLock::new();
    FRAMING.get_or_init(|| {
        let fallback = Framing {
            before: b"Running emitted binary\n".to_vec(),
            before_object: None,
            after: Some(b"   Completed target ".to_vec()),
        };
        // Prints a marker and ends by jumping to 0xFFFF: no HALT message in between
        let scratch = Scratch::new("framing");
        let source = "    lea r0, Msg\n    puts\n    ld r1, End\n    jmp r1\nEnd .fill xFFFF\nMsg .stringz \"@@CAL@@\"\n";
        if std::fs::write(scratch.path("calprog.asm"), source).is_err() {
            return fallback;
        }
        let p = run_lace(
            &scratch,
            &Run {
                args: vec!["run".into(), "calprog.asm".into()],
                cwd: &scratch.dir,
                stdin: b"",
                plan: None,
                watch: None,
                rlimit_fsize: None,
            },
        );
        let marker = b"@@CAL@@";
        let Some(at) = p.stdout.windows(marker.len()).position(|w| w == marker) else {
            return fallback;
        };
        let pre = &p.stdout[..at];
        let post = &p.stdout[at + marker.len()..];
        // The last complete line of what precedes the output
        let Some(end) = pre.iter().rposition(|b| *b == b'\n') else {
            return fallback;
        };
        let start = pre[..end].iter().rposition(|b| *b == b'\n').map(|i| i + 1).unwrap_or(0);
        let before = pre[start..=end].to_vec();
        if before.windows(7).any(|w| w == b"calprog") || before.len() < 3 {
            return fallback;
        }
        let name = b"calprog.asm";
        let after = post.windows(name.len()).position(|w| w == name).map(|i| post[..i].to_vec()).filter(|a| a.len() >= 3);
        // The same program as an object file
        let mut before_object = None;
        let compiled = run_lace(
            &scratch,
            &Run {
                args: vec!["compile".into(), "calprog.asm".into(), "calprog.lc3".into()],
                cwd: &scratch.dir,
                stdin: b"",
                plan: None,
                watch: None,
                rlimit_fsize: None,
            },
        );
        if compiled.status == Some(0) {
            let p = run_lace(
                &scratch,
                &Run {
                    args: vec!["run".into(), "calprog.lc3".into()],
                    cwd: &scratch.dir,
                    stdin: b"",
                    plan: None,
                    watch: None,
                    rlimit_fsize: None,
                },
            );
            if let Some(at) = p.stdout.windows(marker.len()).position(|w| w == marker) {
                let pre = &p.stdout[..at];
                if let Some(end) = pre.iter().rposition(|b| *b == b'\n') {
                    let start = pre[..end].iter().rposition(|b| *b == b'\n').map(|i| i + 1).unwrap_or(0);
                    let line = pre[start..=end].to_vec();
                    if !line.windows(7).any(|w| w == b"calprog") && line.len() >= 3 && line != before {
                        before_object = Some(line);
                    }
                }
            }
        }
        Framing { before, before_object, after }
    })
}

/// The program's own output within the standard output of `lace run` / `lace debug`.
pub fn program_output(stdout: &[u8]) -> Option<Vec<u8>> {
    let f = framing();
    let find = |marker: &Vec<u8>| stdout.windows(marker.len()).position(|w| w == &marker[..]).map(|at| at + marker.len());
    let start = find(&f.before).or_else(|| f.before_object.as_ref().and_then(find))?;
    let rest = &stdout[start..];
    let end = match &f.after {
        Some(after) => rest.windows(after.len()).rposition(|w| w == &after[..]).unwrap_or(rest.len()),
        None => rest.len(),
    };
    Some(rest[..end].to_vec())
}

/// Standard input of the next child that is not a pipe fed by the harness.
#[derive(Clone, Debug)]
pub enum OddStdin {
    /// A directory: every read fails (EISDIR).
    Directory(PathBuf),
    /// No descriptor 0 at all.
    Closed,
    /// /dev/null: end of input at once.
    DevNull,
}

thread_local! {
    pub static ODD_STDIN: std::cell::RefCell<Option<OddStdin>> = const { std::cell::RefCell::new(None) };
}

pub fn run_lace(scratch: &Scratch, run: &Run) -> Proc {
    let log_path = scratch.path(".shimlog");
    let _ = std::fs::remove_file(&log_path);
    let stale = STALE_FOR_PID.with(|s| s.borrow_mut().take());
    let mut cmd = match &stale {
        // A shell plants the file under its own process id and then becomes `lace` (exec keeps
        // the id); the shim is only loaded at that point, so the planting is not counted
        Some(_) => {
            let mut c = Command::new("/bin/sh");
            c.arg("-c")
                .arg("printf '%s' \"$STALE_JUNK\" > \"$STALE_PREFIX.$$.tmp\"; if [ -n \"$SHIM\" ]; then exec env LD_PRELOAD=\"$SHIM\" \"$@\"; else exec \"$@\"; fi")
                .arg("sh")
                .arg(lace_bin());
            c
        }
        None => Command::new(lace_bin()),
    };
    cmd.args(&run.args)
        .current_dir(run.cwd)
        .env_clear()
        .env("NO_COLOR", "1")
        .env("HOME", &scratch.dir)
        .env("PATH", "/usr/bin:/bin")
        .stdin(match ODD_STDIN.with(|s| s.borrow().clone()) {
            Some(OddStdin::Directory(dir)) => std::fs::File::open(dir).map(Stdio::from).unwrap_or_else(|_| Stdio::null()),
            Some(OddStdin::DevNull) | Some(OddStdin::Closed) => Stdio::null(),
            None => Stdio::piped(),
        })
        // Pipes, not files: RLIMIT_FSIZE must only bite the files the program writes itself
        .stdout(Stdio::piped())
        .stderr(Stdio::piped());
    if let Some((prefix, junk)) = &stale {
        cmd.env("STALE_PREFIX", prefix).env("STALE_JUNK", String::from_utf8_lossy(junk).into_owned());
    }
    if let Some(plan) = &run.plan {
        cmd.env(if stale.is_some() { "SHIM" } else { "LD_PRELOAD" }, shim_path())
            .env("FAULTFS_PLAN", plan)
            .env("FAULTFS_LOG", &log_path)
            .env("FAULTFS_DIR", run.watch.unwrap_or(&scratch.dir));
    }
    if let Some(limit) = run.rlimit_fsize {
        unsafe {
            cmd.pre_exec(move || {
                // A real short write at byte `limit`, then EFBIG, instead of a fatal SIGXFSZ
                libc::signal(libc::SIGXFSZ, libc::SIG_IGN);
                let lim = libc::rlimit {
                    rlim_cur: limit,
                    rlim_max: limit,
                };
                libc::setrlimit(libc::RLIMIT_FSIZE, &lim);
                Ok(())
            });
        }
    }
    let odd = ODD_STDIN.with(|s| s.borrow_mut().take());
    if matches!(odd, Some(OddStdin::Closed)) {
        unsafe {
            cmd.pre_exec(|| {
                libc::close(0);
                Ok(())
            });
        }
    }
    let mut child = match cmd.spawn() {
        Ok(c) => c,
        Err(e) => {
            return Proc {
                status: None,
                signal: None,
                stdout: Vec::new(),
                stderr: format!("spawn failed: {}", e).into_bytes(),
                hang: true,
                shim_log: Vec::new(),
            }
        }
    };
    let out_pipe = child.stdout.take();
    let err_pipe = child.stderr.take();
    let out_reader = std::thread::spawn(move || {
        let mut buf = Vec::new();
        if let Some(mut p) = out_pipe {
            let _ = std::io::Read::read_to_end(&mut p, &mut buf);
        }
        buf
    });
    let err_reader = std::thread::spawn(move || {
        let mut buf = Vec::new();
        if let Some(mut p) = err_pipe {
            let _ = std::io::Read::read_to_end(&mut p, &mut buf);
        }
        buf
    });
    if let Some(mut stdin) = child.stdin.take() {
        let _ = stdin.write_all(run.stdin);
    }
    let started = Instant::now();
    let mut hang = false;
    let status = loop {
        match child.try_wait() {
            Ok(Some(status)) => break Some(status),
            Ok(None) => {
                if started.elapsed() > Duration::from_secs(20) {
                    let _ = child.kill();
                    let _ = child.wait();
                    hang = true;
                    break None;
                }
                std::thread::sleep(Duration::from_micros(200));
            }
            Err(_) => break None,
        }
    };
    let shim_log = std::fs::read_to_string(&log_path)
        .map(|s| s.lines().map(|l| l.to_string()).collect())
        .unwrap_or_default();
    Proc {
        status: status.and_then(|s| s.code()),
        signal: status.and_then(|s| s.signal()),
        stdout: out_reader.join().unwrap_or_default(),
        stderr: err_reader.join().unwrap_or_default(),
        hang,
        shim_log,
    }
}

/// Words (origin first) the library emits for `text`, through the public API on a fresh
/// thread; `Err` carries the stage that failed ("lex/parse", "backpatch", "emit@k").
pub fn assemble_words(text: &str, stack: bool) -> Result<Vec<u16>, String> {
    let text = text.to_string();
    std::thread::Builder::new()
        .stack_size(8 << 20)
        .spawn(move || -> Result<Vec<u16>, String> {
            let features = lace::features::Features::from_str(if stack { "stack" } else { "" }).expect("features");
            lace::features::init(features);
            let mut contents = lace::StaticSource::new(text);
            let result = (|| {
                let parser = lace::AsmParser::new(contents.src()).map_err(|_| "lex/parse".to_string())?;
                let mut air = parser.parse().map_err(|_| "lex/parse".to_string())?;
                air.backpatch().map_err(|_| "backpatch".to_string())?;
                let mut words = vec![air.orig().unwrap_or(0x3000)];
                for (k, stmt) in air.ast.iter().enumerate() {
                    words.push(stmt.emit().map_err(|_| format!("emit@{}", k))?);
                }
                Ok(words)
            })();
            contents.reclaim();
            result
        })
        .expect("spawn")
        .join()
        .unwrap_or_else(|_| Err("panic".to_string()))
}

pub fn words_to_bytes(words: &[u16]) -> Vec<u8> {
    words.iter().flat_map(|w| w.to_be_bytes()).collect()
}
