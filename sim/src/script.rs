//! Debugger scripts with generator-known meaning: semantic commands, their seeded rendering in
//! the documented spellings, and (de)serialisation.

use crate::json::J;
use crate::rng::Rng;

#[derive(Clone, Debug, PartialEq)]
pub enum Loc {
    /// Absolute address (may be outside 0..=0xFFFF to provoke a refusal).
    Abs(i64),
    Label { name: String, off: i64 },
    /// Offset from the program counter (`^`, `^3`, `^-x10`).
    Pc(i64),
}

#[derive(Clone, Debug, PartialEq)]
pub enum Target {
    Reg(u8),
    Mem(Loc),
}

/// An instruction handed to `eval`, with what it means.
#[derive(Clone, Debug, PartialEq)]
pub enum EvalKind {
    /// Position-independent instruction with this encoding.
    Word(u16),
    /// PC-relative data instruction naming a label: opcode nibble (2 LD, 3 ST, 0xA LDI, 0xB STI,
    /// 0xE LEA) and register.
    LabelOp { op: u8, reg: u8, label: String },
    /// `JSR label`: the PC becomes the label's address; the link value in R7 is unspecified.
    JumpLabel { label: String },
    /// `JSRR reg`: the PC becomes the register's value; the link value in R7 is unspecified.
    JumpReg { reg: u8 },
    /// Must be refused with no effect.
    Refused,
}

#[derive(Clone, Debug, PartialEq)]
pub struct EvalInstr {
    pub text: String,
    pub kind: EvalKind,
}

#[derive(Clone, Debug, PartialEq)]
pub enum Cmd {
    Step,
    StepInto(Option<i64>),
    StepOut,
    Continue,
    BreakAdd(Loc),
    BreakRemove(Loc),
    BreakList,
    Print(Target),
    Registers,
    Assembly(Option<Loc>),
    Echo(String),
    Help,
    Move(Target, i64),
    Goto(Loc),
    Eval(EvalInstr),
    Reset,
    Quit,
    Exit,
    /// A line the documented grammar rejects (verbatim).
    Garbage(String),
    /// The undocumented `sudo` command.
    Sudo,
}

#[derive(Clone, Debug, PartialEq)]
pub struct Item {
    pub cmd: Cmd,
    /// Seed of the spelling (aliases, case, radix, signs, zeros, spacing).
    pub spell: u64,
}

impl Cmd {
    pub fn is_resume(&self) -> bool {
        matches!(self, Cmd::Step | Cmd::StepInto(_) | Cmd::StepOut | Cmd::Continue)
    }
    /// Execution-control and inspection commands of C09 (never change the machine themselves).
    pub fn is_transparent(&self) -> bool {
        matches!(
            self,
            Cmd::Step
                | Cmd::StepInto(_)
                | Cmd::StepOut
                | Cmd::Continue
                | Cmd::BreakAdd(_)
                | Cmd::BreakRemove(_)
                | Cmd::BreakList
                | Cmd::Print(_)
                | Cmd::Registers
                | Cmd::Assembly(_)
                | Cmd::Echo(_)
                | Cmd::Help
                | Cmd::Quit
        )
    }
    pub fn kind_name(&self) -> &'static str {
        match self {
            Cmd::Step => "step",
            Cmd::StepInto(_) => "step_into",
            Cmd::StepOut => "step_out",
            Cmd::Continue => "continue",
            Cmd::BreakAdd(_) => "break_add",
            Cmd::BreakRemove(_) => "break_remove",
            Cmd::BreakList => "break_list",
            Cmd::Print(_) => "print",
            Cmd::Registers => "registers",
            Cmd::Assembly(_) => "assembly",
            Cmd::Echo(_) => "echo",
            Cmd::Help => "help",
            Cmd::Move(..) => "move",
            Cmd::Goto(_) => "goto",
            Cmd::Eval(_) => "eval",
            Cmd::Reset => "reset",
            Cmd::Quit => "quit",
            Cmd::Exit => "exit",
            Cmd::Garbage(_) => "garbage",
            Cmd::Sudo => "sudo",
        }
    }
}

// ---------------------------------------------------------------------------------------------
// Rendering
// ---------------------------------------------------------------------------------------------

fn recase(rng: &mut Rng, word: &str) -> String {
    match rng.below(4) {
        0 => word.to_ascii_uppercase(),
        1 => word
            .chars()
            .map(|c| if rng.coin() { c.to_ascii_uppercase() } else { c })
            .collect(),
        _ => word.to_string(),
    }
}

/// A non-negative integer in a random documented spelling.
/// `allow_sign`: a `+` may be written (before or after the prefix).
pub fn spell_unsigned(rng: &mut Rng, value: u64, allow_sign: bool) -> String {
    spell_int(rng, value as i64, allow_sign, false)
}

/// Integer with optional sign, optional single leading zero before a non-decimal prefix,
/// radix prefix #/x/o/b (either case), leading zeros after the prefix.
/// `force_sign_first`: the sign is mandatory and must precede the prefix (label offsets).
pub fn spell_int(rng: &mut Rng, value: i64, allow_plus: bool, force_sign_first: bool) -> String {
    let negative = value < 0;
    let mag = value.unsigned_abs();
    let sign = if negative {
        "-"
    } else if force_sign_first || (allow_plus && rng.chance(1, 5)) {
        "+"
    } else {
        ""
    };
    let radix = rng.below(6);
    let (prefix, digits) = match radix {
        0 => ("".to_string(), format!("{}", mag)),
        1 => ("#".to_string(), format!("{}", mag)),
        2 | 3 => {
            let p = if rng.coin() { "x" } else { "X" };
            let d = if rng.coin() { format!("{:x}", mag) } else { format!("{:X}", mag) };
            (p.to_string(), d)
        }
        4 => ((if rng.coin() { "o" } else { "O" }).to_string(), format!("{:o}", mag)),
        _ => ((if rng.coin() { "b" } else { "B" }).to_string(), format!("{:b}", mag)),
    };
    // A bare decimal may not start with extra zeros before a prefix; zeros after the prefix are fine.
    let zeros = if rng.chance(1, 4) { "0".repeat(1 + rng.usize_below(3)) } else { String::new() };
    let lead0 = if radix >= 2 && rng.chance(1, 3) { "0" } else { "" };
    let sign_after = !force_sign_first && !sign.is_empty() && !prefix.is_empty() && rng.chance(1, 3);
    if radix == 0 {
        // No prefix: sign, zeros, digits ("007" is decimal 7)
        return format!("{}{}{}", sign, zeros, digits);
    }
    if sign_after {
        format!("{}{}{}{}{}", lead0, prefix, sign, zeros, digits)
    } else {
        format!("{}{}{}{}{}", sign, lead0, prefix, zeros, digits)
    }
}

pub fn render_loc(rng: &mut Rng, loc: &Loc) -> String {
    match loc {
        Loc::Abs(a) => {
            if *a < 0 {
                // Negative absolute address: always refused by the parser
                spell_int(rng, *a, false, false)
            } else {
                spell_unsigned(rng, *a as u64, true)
            }
        }
        Loc::Label { name, off } => {
            if *off == 0 && rng.chance(2, 3) {
                name.clone()
            } else {
                format!("{}{}", name, spell_int(rng, *off, false, true))
            }
        }
        Loc::Pc(off) => {
            if *off == 0 && rng.chance(2, 3) {
                "^".to_string()
            } else {
                format!("^{}", spell_int(rng, *off, true, false))
            }
        }
    }
}

fn render_target(rng: &mut Rng, t: &Target) -> String {
    match t {
        Target::Reg(r) => format!("{}{}", if rng.coin() { "r" } else { "R" }, r),
        Target::Mem(loc) => render_loc(rng, loc),
    }
}

fn name(rng: &mut Rng, options: &[&str]) -> String {
    let n = *rng.pick(options);
    // Multi-word names keep a single space or get several
    let parts: Vec<String> = n.split(' ').map(|w| recase(rng, w)).collect();
    let gap = if rng.chance(1, 5) { "   " } else { " " };
    parts.join(gap)
}

impl Item {
    /// The command line as typed (no separator).
    pub fn render(&self) -> String {
        let mut rng = Rng::new(self.spell);
        let r = &mut rng;
        let body = match &self.cmd {
            Cmd::Step => name(r, &["step", "s"]),
            Cmd::StepInto(count) => {
                let n = name(r, &["step into", "step i", "s i", "s into", "si", "stepinto"]);
                match count {
                    Some(c) => format!("{} {}", n, spell_int(r, *c, true, false)),
                    None => n,
                }
            }
            Cmd::StepOut => name(r, &["step out", "step o", "s o", "so", "stepout"]),
            Cmd::Continue => name(r, &["continue", "c", "cont"]),
            Cmd::BreakAdd(loc) => {
                let n = name(r, &["break add", "b a", "break a", "b add", "ba", "breakadd"]);
                format!("{} {}", n, render_loc(r, loc))
            }
            Cmd::BreakRemove(loc) => {
                let n = name(r, &["break remove", "b r", "break r", "b remove", "br", "breakremove"]);
                format!("{} {}", n, render_loc(r, loc))
            }
            Cmd::BreakList => name(r, &["break list", "b l", "bl", "breaklist", "break l"]),
            Cmd::Print(t) => format!("{} {}", name(r, &["print", "p"]), render_target(r, t)),
            Cmd::Registers => name(r, &["registers", "r", "reg"]),
            Cmd::Assembly(loc) => {
                let n = name(r, &["assembly", "a", "asm"]);
                match loc {
                    Some(l) => format!("{} {}", n, render_loc(r, l)),
                    None => n,
                }
            }
            Cmd::Echo(s) => format!("{} {}", recase(r, "echo"), s),
            Cmd::Help => {
                let n = name(r, &["help", "h", "--help", "-h", ":h", "man", "info", "wtf"]);
                if r.chance(1, 4) {
                    format!("{} me", n)
                } else {
                    n
                }
            }
            Cmd::Move(t, v) => {
                let n = name(r, &["move", "m"]);
                let tt = render_target(r, t);
                format!("{} {} {}", n, tt, spell_int(r, *v, true, false))
            }
            Cmd::Goto(loc) => format!("{} {}", name(r, &["goto", "g"]), render_loc(r, loc)),
            Cmd::Eval(instr) => format!("{} {}", name(r, &["eval", "e", "evil", "evaluate"]), instr.text),
            Cmd::Reset => name(r, &["reset", "z"]),
            Cmd::Quit => name(r, &["quit", "q"]),
            Cmd::Exit => name(r, &["exit", "x", ":q", ":wq", "^C"]),
            Cmd::Garbage(line) => return line.clone(),
            Cmd::Sudo => "sudo".to_string(),
        };
        // Any amount of blanks between tokens is legal: now and then a run long enough that a
        // reader with a fixed-size buffer (1024, 4096 bytes) has its limit fall just before or
        // inside the last token
        let body = if !matches!(self.cmd, Cmd::Echo(_) | Cmd::Eval(_)) && r.chance(1, 70) {
            match body.rfind(' ') {
                Some(at) => {
                    let limit = *r.pick(&[1024usize, 1024, 4096, 4096, 2048, 8192]);
                    let last = body.len() - at - 1;
                    let inside = r.usize_below(last + 2);
                    let pad = (limit + inside).saturating_sub(body.len()).max(1);
                    format!("{}{}{}", &body[..at], " ".repeat(pad), &body[at..])
                }
                None => body,
            }
        } else {
            body
        };
        // Leading/trailing blanks are legal
        match r.below(8) {
            0 => format!("  {}", body),
            1 => format!("{}  ", body),
            2 => format!(" {} ", body),
            _ => body,
        }
    }
}

// ---------------------------------------------------------------------------------------------
// JSON
// ---------------------------------------------------------------------------------------------

fn loc_to_json(l: &Loc) -> J {
    match l {
        Loc::Abs(a) => J::obj().set("abs", *a),
        Loc::Label { name, off } => J::obj().set("label", name.as_str()).set("off", *off),
        Loc::Pc(off) => J::obj().set("pc", *off),
    }
}

fn loc_from_json(j: &J) -> Option<Loc> {
    if let Some(a) = j.get_int("abs") {
        return Some(Loc::Abs(a));
    }
    if let Some(name) = j.get_str("label") {
        return Some(Loc::Label {
            name: name.to_string(),
            off: j.get_int("off").unwrap_or(0),
        });
    }
    j.get_int("pc").map(Loc::Pc)
}

fn target_to_json(t: &Target) -> J {
    match t {
        Target::Reg(r) => J::obj().set("reg", *r as u64),
        Target::Mem(l) => loc_to_json(l),
    }
}

fn target_from_json(j: &J) -> Option<Target> {
    if let Some(r) = j.get_int("reg") {
        return Some(Target::Reg(r as u8));
    }
    loc_from_json(j).map(Target::Mem)
}

impl Item {
    pub fn to_json(&self) -> J {
        let mut j = J::obj().set("cmd", self.cmd.kind_name());
        match &self.cmd {
            Cmd::StepInto(c) => j.put("count", *c),
            Cmd::BreakAdd(l) | Cmd::BreakRemove(l) | Cmd::Goto(l) => j.put("loc", loc_to_json(l)),
            Cmd::Assembly(l) => j.put("loc", l.as_ref().map(loc_to_json)),
            Cmd::Print(t) => j.put("target", target_to_json(t)),
            Cmd::Move(t, v) => {
                j.put("target", target_to_json(t));
                j.put("value", *v);
            }
            Cmd::Echo(s) | Cmd::Garbage(s) => j.put("text", s.as_str()),
            Cmd::Eval(e) => {
                j.put("text", e.text.as_str());
                match &e.kind {
                    EvalKind::Word(w) => j.put("word", *w),
                    EvalKind::LabelOp { op, reg, label } => {
                        j.put("op", *op as u64);
                        j.put("reg", *reg as u64);
                        j.put("label", label.as_str());
                    }
                    EvalKind::JumpLabel { label } => j.put("jump_label", label.as_str()),
                    EvalKind::JumpReg { reg } => j.put("jump_reg", *reg as u64),
                    EvalKind::Refused => j.put("refused", true),
                }
            }
            _ => {}
        }
        j.put("spell", J::Str(format!("{:016x}", self.spell)));
        j.put("line", self.render());
        j
    }

    pub fn from_json(j: &J) -> Option<Item> {
        let spell = j
            .get_str("spell")
            .and_then(|s| u64::from_str_radix(s, 16).ok())
            .unwrap_or(0);
        let loc = || j.get("loc").and_then(loc_from_json);
        let cmd = match j.get_str("cmd")? {
            "step" => Cmd::Step,
            "step_into" => Cmd::StepInto(j.get("count").and_then(|c| c.int())),
            "step_out" => Cmd::StepOut,
            "continue" => Cmd::Continue,
            "break_add" => Cmd::BreakAdd(loc()?),
            "break_remove" => Cmd::BreakRemove(loc()?),
            "break_list" => Cmd::BreakList,
            "print" => Cmd::Print(target_from_json(j.get("target")?)?),
            "registers" => Cmd::Registers,
            "assembly" => Cmd::Assembly(loc()),
            "echo" => Cmd::Echo(j.get_str("text")?.to_string()),
            "help" => Cmd::Help,
            "move" => Cmd::Move(target_from_json(j.get("target")?)?, j.get_int("value")?),
            "goto" => Cmd::Goto(loc()?),
            "eval" => {
                let text = j.get_str("text")?.to_string();
                let kind = if let Some(l) = j.get_str("jump_label") {
                    EvalKind::JumpLabel { label: l.to_string() }
                } else if let Some(r) = j.get_int("jump_reg") {
                    EvalKind::JumpReg { reg: r as u8 }
                } else if let Some(w) = j.get_int("word") {
                    EvalKind::Word(w as u16)
                } else if let Some(label) = j.get_str("label") {
                    EvalKind::LabelOp {
                        op: j.get_int("op")? as u8,
                        reg: j.get_int("reg")? as u8,
                        label: label.to_string(),
                    }
                } else {
                    EvalKind::Refused
                };
                Cmd::Eval(EvalInstr { text, kind })
            }
            "reset" => Cmd::Reset,
            "quit" => Cmd::Quit,
            "exit" => Cmd::Exit,
            "garbage" => Cmd::Garbage(j.get_str("text")?.to_string()),
            "sudo" => Cmd::Sudo,
            _ => return None,
        };
        Some(Item { cmd, spell })
    }
}

pub fn script_to_json(items: &[Item]) -> J {
    J::Arr(items.iter().map(|i| i.to_json()).collect())
}

pub fn script_from_json(j: &J) -> Vec<Item> {
    j.arr()
        .map(|a| a.iter().filter_map(Item::from_json).collect())
        .unwrap_or_default()
}
