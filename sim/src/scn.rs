//! Scenario (de)serialisation helpers and generic shrinking of programs and byte strings.

use crate::gen::{Program, Stmt};
use crate::json::J;

pub fn program_to_json(p: &Program) -> J {
    J::obj()
        .set("orig", p.orig.map(|o| J::from(o)))
        .set("stack", p.stack)
        .set("uses_input", p.uses_input)
        .set("layout_seed", J::Str(format!("{:016x}", p.layout_seed)))
        .set("trailing_breaks", p.trailing_breaks as u64)
        .set(
            "features",
            J::Arr(p.features.iter().map(|f| J::from(*f)).collect()),
        )
        .set(
            "stmts",
            J::Arr(
                p.stmts
                    .iter()
                    .map(|s| {
                        J::obj()
                            .set("labels", J::Arr(s.labels.iter().map(|l| J::from(l.as_str())).collect()))
                            .set("text", s.text.as_str())
                            .set("words", s.words)
                            .set("breaks", s.breaks as u64)
                    })
                    .collect(),
            ),
        )
        // Redundant but convenient for a human reading a replay file
        .set("rendered", p.render())
}

pub fn program_from_json(j: &J) -> Option<Program> {
    let mut stmts = Vec::new();
    for s in j.get_arr("stmts")? {
        stmts.push(Stmt {
            labels: s
                .get_arr("labels")?
                .iter()
                .filter_map(|l| l.str().map(|s| s.to_string()))
                .collect(),
            text: s.get_str("text")?.to_string(),
            words: s.get_int("words")? as usize,
            breaks: s.get_int("breaks")? as u8,
        });
    }
    Some(Program {
        orig: j.get("orig").and_then(|o| o.int()).map(|o| o as u16),
        stmts,
        trailing_breaks: j.get_int("trailing_breaks").unwrap_or(0) as u8,
        stack: j.get_bool("stack").unwrap_or(false),
        uses_input: j.get_bool("uses_input").unwrap_or(false),
        layout_seed: j
            .get_str("layout_seed")
            .and_then(|s| u64::from_str_radix(s, 16).ok())
            .unwrap_or(0),
        // Feature names are only used for coverage accounting at generation time
        features: Vec::new(),
    })
}

pub fn bytes_to_json(b: &[u8]) -> J {
    J::Arr(b.iter().map(|x| J::Int(*x as i64)).collect())
}

pub fn bytes_from_json(j: &J) -> Vec<u8> {
    j.arr()
        .map(|a| a.iter().filter_map(|x| x.int()).map(|x| x as u8).collect())
        .unwrap_or_default()
}

pub fn words_to_json(w: &[u16]) -> J {
    J::Arr(w.iter().map(|x| J::Int(*x as i64)).collect())
}

pub fn words_from_json(j: &J) -> Vec<u16> {
    j.arr()
        .map(|a| a.iter().filter_map(|x| x.int()).map(|x| x as u16).collect())
        .unwrap_or_default()
}

pub fn strings_to_json(v: &[String]) -> J {
    J::Arr(v.iter().map(|s| J::from(s.as_str())).collect())
}

pub fn strings_from_json(j: &J) -> Vec<String> {
    j.arr()
        .map(|a| a.iter().filter_map(|x| x.str()).map(|x| x.to_string()).collect())
        .unwrap_or_default()
}

/// Smaller variants of a program: chunks of statements removed (their labels move to the
/// following statement so that references still resolve), `.break`s removed, origin dropped.
pub fn shrink_program(p: &Program) -> Vec<Program> {
    let mut out = Vec::new();
    let n = p.stmts.len();
    let mut chunk = n / 2;
    while chunk >= 1 {
        let mut start = 0;
        while start < n {
            let end = (start + chunk).min(n);
            if end - start < n {
                let mut q = p.clone();
                let removed: Vec<Stmt> = q.stmts.drain(start..end).collect();
                let labels: Vec<String> = removed.into_iter().flat_map(|s| s.labels).collect();
                if !labels.is_empty() {
                    if start < q.stmts.len() {
                        let mut merged = labels;
                        merged.append(&mut q.stmts[start].labels);
                        q.stmts[start].labels = merged;
                        out.push(q);
                    }
                    // labels with nowhere to go: skip this candidate
                } else {
                    out.push(q);
                }
            }
            start += chunk;
        }
        if chunk == 1 {
            break;
        }
        chunk /= 2;
    }
    if p.stmts.iter().any(|s| s.breaks > 0) || p.trailing_breaks > 0 {
        let mut q = p.clone();
        for s in &mut q.stmts {
            s.breaks = 0;
        }
        q.trailing_breaks = 0;
        out.push(q);
        for i in 0..p.stmts.len() {
            if p.stmts[i].breaks > 0 {
                let mut q = p.clone();
                q.stmts[i].breaks = 0;
                out.push(q);
            }
        }
        if p.trailing_breaks > 0 {
            let mut q = p.clone();
            q.trailing_breaks = 0;
            out.push(q);
        }
    }
    if p.orig.is_some() {
        let mut q = p.clone();
        q.orig = None;
        out.push(q);
    }
    if p.layout_seed != 0 {
        let mut q = p.clone();
        q.layout_seed = 0;
        out.push(q);
    }
    out
}

/// Smaller variants of a list: halves, then single elements removed.
pub fn shrink_list<T: Clone>(v: &[T]) -> Vec<Vec<T>> {
    let mut out = Vec::new();
    let n = v.len();
    if n == 0 {
        return out;
    }
    let mut chunk = n.div_ceil(2);
    loop {
        let mut start = 0;
        while start < n {
            let end = (start + chunk).min(n);
            let mut q = v.to_vec();
            q.drain(start..end);
            out.push(q);
            start += chunk;
        }
        if chunk == 1 {
            break;
        }
        chunk = chunk.div_ceil(2);
        if chunk == 0 {
            break;
        }
    }
    out
}
