//! Batch engine shared by every check: seeded generation, parallel workers (one OS process
//! each, because output capture is per process), aggregation, determinism re-check,
//! minimisation, known-findings handling, replay files and the evidence file.

use std::collections::{BTreeMap, BTreeSet};
use std::io::{Read as _, Write as _};
use std::path::{Path, PathBuf};
use std::time::Instant;

use crate::capture::Capture;
use crate::json::J;
use crate::rng::{fnv, run_seed};

pub const DEFAULT_SEED: u64 = 20261002;

#[derive(Clone, Copy, Debug, PartialEq)]
pub enum Tier {
    Quick,
    Thorough,
}

impl Tier {
    pub fn name(&self) -> &'static str {
        match self {
            Tier::Quick => "quick",
            Tier::Thorough => "thorough",
        }
    }
}

#[derive(Clone, Debug, PartialEq)]
pub struct Violation {
    pub prop: String,
    /// Class key produced by the oracle's diagnosis: specific enough that a different defect
    /// of the same property gets a different key.
    pub key: String,
    pub detail: String,
}

impl Violation {
    pub fn new(prop: &str, key: impl Into<String>, detail: impl Into<String>) -> Violation {
        Violation {
            prop: prop.to_string(),
            key: key.into(),
            detail: detail.into(),
        }
    }
}

#[derive(Default)]
pub struct Report {
    pub violations: Vec<Violation>,
    /// The run could not be used (e.g. generated program did not assemble); reason.
    pub discarded: Option<String>,
    pub nontrivial: bool,
    /// Signature of the run's shape, for counting distinct non-trivial cases.
    pub signature: u64,
    /// Fingerprint of everything observed, for the determinism re-check.
    pub log_hash: u64,
    pub sim_ticks: u64,
    /// Fault kinds fired ("fault:..."), probes ("probe:..."), adopted steps ("adopted:...") etc.
    pub counters: BTreeMap<String, u64>,
}

impl Report {
    pub fn count(&mut self, name: &str, n: u64) {
        if n > 0 {
            *self.counters.entry(name.to_string()).or_insert(0) += n;
        }
    }
    pub fn hit(&mut self, name: &str) {
        self.count(name, 1);
    }
}

pub trait Check: Sync {
    fn id(&self) -> &'static str;
    fn level(&self) -> &'static str {
        "exploration"
    }
    fn runs(&self, tier: Tier) -> u64;
    /// Wall-clock cap of a batch in seconds (a cap, not a target).
    fn time_cap_s(&self, tier: Tier) -> u64 {
        match tier {
            Tier::Quick => 120,
            Tier::Thorough => 900,
        }
    }
    /// The concrete scenario of run `index` (pure function of seed and index).
    fn generate(&self, seed: u64, index: u64) -> J;
    /// Execute the scenario on the real system and evaluate the oracles.
    fn execute(&self, cap: &Capture, scenario: &J) -> Report;
    /// Smaller variants of a failing scenario, most promising first.
    fn shrink(&self, _scenario: &J) -> Vec<J> {
        Vec::new()
    }
    fn rule(&self) -> String;
    fn assumptions(&self) -> Vec<String>;
    /// {"real": [...], "stub": [...]}
    fn components(&self) -> J;
    /// Probes that must not stay at zero in a batch of this tier.
    fn expected_probes(&self) -> Vec<&'static str> {
        Vec::new()
    }
    /// Extra deterministic scenarios executed before the seeded ones (e.g. enumerations).
    fn fixed_scenarios(&self, _tier: Tier) -> Vec<J> {
        Vec::new()
    }
    /// Whether the fixed scenarios enumerate a finite space completely.
    fn world(&self) -> &'static str;
}

pub fn verif_dir() -> PathBuf {
    std::env::var("VERIF_DIR")
        .map(PathBuf::from)
        .unwrap_or_else(|_| PathBuf::from("/verif"))
}

pub fn master_seed() -> u64 {
    std::env::var("VERIF_SEED")
        .ok()
        .and_then(|s| s.trim().parse::<u64>().ok())
        .unwrap_or(DEFAULT_SEED)
}

// ---------------------------------------------------------------------------------------------
// Known findings
// ---------------------------------------------------------------------------------------------

pub struct Known {
    pub status: String,
    pub property: String,
    pub key: String,
    pub what: String,
    pub witness: Option<J>,
}

pub fn load_known() -> Vec<Known> {
    let path = verif_dir().join("known_findings.jsonl");
    let Ok(text) = std::fs::read_to_string(&path) else {
        return Vec::new();
    };
    let mut out = Vec::new();
    for line in text.lines() {
        let line = line.trim();
        if line.is_empty() || line.starts_with('#') {
            continue;
        }
        if let Ok(j) = J::parse(line) {
            out.push(Known {
                status: j.get_str("status").unwrap_or("").to_string(),
                property: j.get_str("property").unwrap_or("").to_string(),
                key: j.get_str("key").unwrap_or("").to_string(),
                what: j.get_str("what").unwrap_or("").to_string(),
                witness: j.get("witness").cloned().filter(|w| !matches!(w, J::Null)),
            });
        }
    }
    out
}

// ---------------------------------------------------------------------------------------------
// Worker
// ---------------------------------------------------------------------------------------------

struct Found {
    key: String,
    detail: String,
    scenario: J,
    index: i64,
}

struct Acc {
    evaluations: u64,
    discarded: BTreeMap<String, u64>,
    nontrivial: u64,
    signatures: BTreeSet<u64>,
    sim_ticks: u64,
    counters: BTreeMap<String, u64>,
    out_of_scope: BTreeMap<String, u64>,
    found: Vec<Found>,
    found_per_key: BTreeMap<String, u64>,
    recheck_runs: u64,
    recheck_mismatches: u64,
    samples: Vec<J>,
    log_xor: u64,
}

impl Acc {
    fn new() -> Acc {
        Acc {
            evaluations: 0,
            discarded: BTreeMap::new(),
            nontrivial: 0,
            signatures: BTreeSet::new(),
            sim_ticks: 0,
            counters: BTreeMap::new(),
            out_of_scope: BTreeMap::new(),
            found: Vec::new(),
            found_per_key: BTreeMap::new(),
            recheck_runs: 0,
            recheck_mismatches: 0,
            samples: Vec::new(),
            log_xor: 0,
        }
    }

    fn absorb(&mut self, check: &dyn Check, scenario: &J, index: i64, report: Report) {
        self.evaluations += 1;
        self.sim_ticks += report.sim_ticks;
        self.log_xor ^= report.log_hash.rotate_left((index as u32) & 63);
        for (k, v) in &report.counters {
            *self.counters.entry(k.clone()).or_insert(0) += v;
        }
        if let Some(reason) = &report.discarded {
            let n = self.discarded.entry(reason.clone()).or_insert(0);
            *n += 1;
            if *n == 1 && std::env::var("VERIF_KEEP_OOS").is_ok() {
                self.found.push(Found {
                    key: format!("OOS:discarded:{}", reason),
                    detail: "discarded".into(),
                    scenario: scenario.clone(),
                    index,
                });
            }
            return;
        }
        if report.nontrivial {
            self.nontrivial += 1;
            self.signatures.insert(report.signature);
            if self.samples.len() < 2 {
                self.samples.push(scenario.clone());
            }
        }
        for v in report.violations {
            if v.prop == check.id() {
                let n = self.found_per_key.entry(v.key.clone()).or_insert(0);
                *n += 1;
                if *n <= 3 {
                    self.found.push(Found {
                        key: v.key,
                        detail: v.detail,
                        scenario: scenario.clone(),
                        index,
                    });
                }
            } else {
                let name = format!("{}:{}", v.prop, v.key);
                let n = self.out_of_scope.entry(name.clone()).or_insert(0);
                *n += 1;
                // Keep one witness per foreign class for triage (never reported as a verdict)
                if *n == 1 && std::env::var("VERIF_KEEP_OOS").is_ok() {
                    self.found.push(Found {
                        key: format!("OOS:{}", name),
                        detail: v.detail,
                        scenario: scenario.clone(),
                        index,
                    });
                }
            }
        }
    }

    fn to_json(&self) -> J {
        let map = |m: &BTreeMap<String, u64>| J::Obj(m.iter().map(|(k, v)| (k.clone(), J::from(*v))).collect());
        J::obj()
            .set("evaluations", self.evaluations)
            .set("discarded", map(&self.discarded))
            .set("nontrivial", self.nontrivial)
            .set(
                "signatures",
                J::Arr(self.signatures.iter().map(|s| J::Str(format!("{:016x}", s))).collect()),
            )
            .set("sim_ticks", self.sim_ticks)
            .set("counters", map(&self.counters))
            .set("out_of_scope", map(&self.out_of_scope))
            .set("found_per_key", map(&self.found_per_key))
            .set(
                "found",
                J::Arr(
                    self.found
                        .iter()
                        .map(|f| {
                            J::obj()
                                .set("key", f.key.as_str())
                                .set("detail", f.detail.as_str())
                                .set("index", f.index)
                                .set("scenario", f.scenario.clone())
                        })
                        .collect(),
                ),
            )
            .set("recheck_runs", self.recheck_runs)
            .set("recheck_mismatches", self.recheck_mismatches)
            .set("samples", J::Arr(self.samples.clone()))
            .set("log_xor", J::Str(format!("{:016x}", self.log_xor)))
    }
}

/// Worker entry: runs indices `k, k+n, k+2n, ...` below `total` and writes its accumulator.
pub fn worker(check: &dyn Check, tier: Tier, seed: u64, k: u64, n: u64, total: u64, out: &Path) -> i32 {
    let cap = Capture::install();
    crate::world_a::install_panic_hook();
    let result = std::panic::catch_unwind(std::panic::AssertUnwindSafe(|| {
        worker_inner(check, &cap, tier, seed, k, n, total, out)
    }));
    match result {
        Ok(code) => code,
        Err(_) => {
            let msg = crate::world_a::take_panic_message().unwrap_or_default();
            cap.complain(&format!("harness error: worker {} panicked: {}\n", k, msg));
            2
        }
    }
}

#[allow(clippy::too_many_arguments)]
fn worker_inner(check: &dyn Check, cap: &Capture, tier: Tier, seed: u64, k: u64, n: u64, total: u64, out: &Path) -> i32 {
    let started = Instant::now();
    let cap_s = check.time_cap_s(tier);
    let mut acc = Acc::new();

    // Fixed scenarios are dealt round-robin too; their indices are negative
    let fixed = check.fixed_scenarios(tier);
    for (i, scenario) in fixed.iter().enumerate() {
        if (i as u64) % n != k {
            continue;
        }
        let report = check.execute(cap, scenario);
        acc.absorb(check, scenario, -(i as i64) - 1, report);
    }

    let mut index = k;
    let mut timed_out = false;
    while index < total {
        if started.elapsed().as_secs() >= cap_s {
            timed_out = true;
            break;
        }
        let scenario = check.generate(seed, index);
        let report = check.execute(cap, &scenario);
        let first_hash = report.log_hash;
        let discarded = report.discarded.is_some();
        acc.absorb(check, &scenario, index as i64, report);
        if crate::world_a::poisoned() {
            // A run thread is still spinning inside lace: stop here, report what we have
            timed_out = true;
            index += n;
            break;
        }
        // Determinism re-check on a 1-in-64 sample: regenerate and re-execute
        if index % 64 == 5 && !discarded {
            let again = check.generate(seed, index);
            let report2 = check.execute(cap, &again);
            acc.recheck_runs += 1;
            if again != scenario || report2.log_hash != first_hash {
                acc.recheck_mismatches += 1;
            }
        }
        index += n;
    }
    let mut j = acc.to_json();
    j.put("timed_out", timed_out);
    j.put("next_index", index);
    if let Err(e) = std::fs::write(out, j.to_string()) {
        cap.complain(&format!("worker: cannot write {}: {}\n", out.display(), e));
        return 2;
    }
    0
}

// ---------------------------------------------------------------------------------------------
// Orchestrator
// ---------------------------------------------------------------------------------------------

fn workers_count() -> u64 {
    std::env::var("VERIF_WORKERS")
        .ok()
        .and_then(|s| s.parse::<u64>().ok())
        .filter(|n| *n >= 1)
        .unwrap_or_else(|| {
            std::thread::available_parallelism()
                .map(|n| n.get() as u64)
                .unwrap_or(4)
                .min(16)
        })
}

fn scratch_dir(tag: &str) -> PathBuf {
    let base = verif_dir().join("sim").join("target").join("scratch");
    let dir = base.join(format!("{}-{}", tag, std::process::id()));
    let _ = std::fs::create_dir_all(&dir);
    dir
}

pub struct BatchResult {
    pub exit: i32,
    pub log_xor: String,
}

/// Quiet re-execution used by the minimiser: does `scenario` still show `key`?
fn still_fails(check: &dyn Check, cap: &Capture, scenario: &J, key: &str) -> Option<String> {
    if crate::world_a::poisoned() {
        return None;
    }
    let report = check.execute(cap, scenario);
    if report.discarded.is_some() {
        return None;
    }
    report
        .violations
        .into_iter()
        .find(|v| v.prop == check.id() && v.key == key)
        .map(|v| v.detail)
}

/// Greedy delta debugging driven by the check's own `shrink`.
pub fn minimise(check: &dyn Check, cap: &Capture, scenario: &J, key: &str, budget: usize, seconds: u64) -> (J, String, usize) {
    let mut best = scenario.clone();
    let mut detail = still_fails(check, cap, &best, key).unwrap_or_default();
    let mut spent = 1usize;
    // Wall-clock bound as well: in the worlds that run real processes against real time one
    // attempt can cost seconds. (It bounds how small the replay gets, not what is reported.)
    let started = std::time::Instant::now();
    'outer: loop {
        let candidates = check.shrink(&best);
        for cand in candidates {
            if spent >= budget || started.elapsed().as_secs() > seconds {
                break 'outer;
            }
            if cand == best {
                continue;
            }
            spent += 1;
            if let Some(d) = still_fails(check, cap, &cand, key) {
                best = cand;
                detail = d;
                continue 'outer;
            }
        }
        break;
    }
    (best, detail, spent)
}

fn write_replay(check: &dyn Check, key: &str, detail: &str, scenario: &J, seed: u64, index: i64) -> PathBuf {
    let dir = verif_dir().join("replays");
    let _ = std::fs::create_dir_all(&dir);
    let name = format!(
        "{}-{:08x}.json",
        check.id(),
        fnv(format!("{}|{}", key, scenario.to_string()).as_bytes()) as u32
    );
    let path = dir.join(name);
    let j = J::obj()
        .set("property", check.id())
        .set("key", key)
        .set("detail", detail)
        .set("seed", seed)
        .set("run_index", index)
        // A violation found by the release-profile sample is replayed by a release build
        .set("build_profile", if cfg!(debug_assertions) { "dev" } else { "release" })
        .set("scenario", scenario.clone());
    let _ = std::fs::write(&path, j.to_pretty());
    path
}

/// Run the whole check for a tier. Prints VIOLATION / KNOWN-FINDING lines, writes the evidence
/// file, returns the process exit code.
pub fn run_check(check: &dyn Check, tier: Tier) -> i32 {
    let started = Instant::now();
    let seed = master_seed();
    let divisor = std::env::var("VERIF_RUNS_DIVISOR")
        .ok()
        .and_then(|s| s.parse::<u64>().ok())
        .filter(|d| *d >= 1)
        .unwrap_or(1);
    let total = std::env::var("VERIF_RUNS")
        .ok()
        .and_then(|s| s.parse::<u64>().ok())
        .unwrap_or_else(|| (check.runs(tier) / divisor).max(1));
    let n = workers_count();
    let dir = scratch_dir(check.id());
    let exe = std::env::current_exe().expect("current_exe");
    println!(
        "check {} tier={} seed={} runs={} workers={}",
        check.id(),
        tier.name(),
        seed,
        total,
        n
    );

    // Spawn workers
    let mut children = Vec::new();
    for k in 0..n {
        let out = dir.join(format!("w{}.json", k));
        let child = std::process::Command::new(&exe)
            .arg("worker")
            .arg(check.id())
            .arg(tier.name())
            .arg(seed.to_string())
            .arg(k.to_string())
            .arg(n.to_string())
            .arg(total.to_string())
            .arg(&out)
            .env("NO_COLOR", "1")
            .env("VERIF_DIR", verif_dir())
            .stdin(std::process::Stdio::null())
            .spawn();
        match child {
            Ok(c) => children.push((k, c, out)),
            Err(e) => {
                eprintln!("harness error: cannot spawn worker: {}", e);
                return 2;
            }
        }
    }

    // Merge
    let mut harness_error = false;
    let mut evaluations = 0u64;
    let mut nontrivial = 0u64;
    let mut sim_ticks = 0u64;
    let mut signatures: BTreeSet<String> = BTreeSet::new();
    let mut counters: BTreeMap<String, u64> = BTreeMap::new();
    let mut discarded: BTreeMap<String, u64> = BTreeMap::new();
    let mut out_of_scope: BTreeMap<String, u64> = BTreeMap::new();
    let mut found_per_key: BTreeMap<String, u64> = BTreeMap::new();
    let mut found: Vec<(String, String, J, i64)> = Vec::new();
    let mut recheck_runs = 0u64;
    let mut recheck_mismatches = 0u64;
    let mut samples: Vec<J> = Vec::new();
    let mut timed_out = false;
    let mut log_xor = 0u64;
    for (k, mut child, out) in children {
        let status = child.wait();
        if !matches!(&status, Ok(s) if s.success()) {
            eprintln!("harness error: worker {} ended with {:?}", k, status);
            harness_error = true;
            continue;
        }
        let mut text = String::new();
        if std::fs::File::open(&out)
            .and_then(|mut f| f.read_to_string(&mut text))
            .is_err()
        {
            eprintln!("harness error: worker {} left no result", k);
            harness_error = true;
            continue;
        }
        let Ok(j) = J::parse(&text) else {
            eprintln!("harness error: worker {} result unreadable", k);
            harness_error = true;
            continue;
        };
        evaluations += j.get_int("evaluations").unwrap_or(0) as u64;
        nontrivial += j.get_int("nontrivial").unwrap_or(0) as u64;
        sim_ticks += j.get_int("sim_ticks").unwrap_or(0) as u64;
        recheck_runs += j.get_int("recheck_runs").unwrap_or(0) as u64;
        recheck_mismatches += j.get_int("recheck_mismatches").unwrap_or(0) as u64;
        timed_out |= j.get_bool("timed_out").unwrap_or(false);
        if let Some(x) = j.get_str("log_xor").and_then(|s| u64::from_str_radix(s, 16).ok()) {
            log_xor ^= x;
        }
        for s in j.get_arr("signatures").unwrap_or(&[]) {
            if let Some(s) = s.str() {
                signatures.insert(s.to_string());
            }
        }
        let mut merge = |name: &str, into: &mut BTreeMap<String, u64>| {
            if let Some(J::Obj(items)) = j.get(name) {
                for (k, v) in items {
                    *into.entry(k.clone()).or_insert(0) += v.int().unwrap_or(0) as u64;
                }
            }
        };
        merge("counters", &mut counters);
        merge("discarded", &mut discarded);
        merge("out_of_scope", &mut out_of_scope);
        merge("found_per_key", &mut found_per_key);
        for f in j.get_arr("found").unwrap_or(&[]) {
            found.push((
                f.get_str("key").unwrap_or("").to_string(),
                f.get_str("detail").unwrap_or("").to_string(),
                f.get("scenario").cloned().unwrap_or(J::Null),
                f.get_int("index").unwrap_or(0),
            ));
        }
        for s in j.get_arr("samples").unwrap_or(&[]) {
            if samples.len() < 4 {
                samples.push(s.clone());
            }
        }
    }
    let _ = std::fs::remove_dir_all(&dir);

    // Judged at the end: a dependence on process history is itself a violation of some
    // properties (C19), and then shows up here too
    let determinism_lost = recheck_mismatches > 0;

    // Triage: known findings, minimisation, replay files
    let cap = Capture::install();
    crate::world_a::install_panic_hook();
    let known = load_known();
    let mut lines: Vec<String> = Vec::new();
    let mut unlisted = 0u64;
    let minimise_started = std::time::Instant::now();
    let mut known_matched: BTreeMap<String, u64> = BTreeMap::new();

    // Listed known findings of this property are re-executed from their stored witness, so the
    // line is printed whether or not the seeded batch happened to rediscover them.
    for kf in known.iter().filter(|k| k.property == check.id() && k.status == "known") {
        let reproduced = match &kf.witness {
            Some(w) => still_fails(check, &cap, w, &kf.key).is_some(),
            None => found_per_key.contains_key(&kf.key),
        };
        if reproduced || found_per_key.contains_key(&kf.key) {
            lines.push(format!(
                "KNOWN-FINDING: property={} key={} {}",
                check.id(),
                kf.key,
                kf.what
            ));
            *known_matched.entry(kf.key.clone()).or_insert(0) += found_per_key.get(&kf.key).copied().unwrap_or(0).max(1);
        } else {
            lines.push(format!(
                "note: listed finding no longer reproduces: property={} key={}",
                check.id(),
                kf.key
            ));
        }
    }

    let mut by_key: BTreeMap<String, Vec<(String, J, i64)>> = BTreeMap::new();
    for (key, detail, scenario, index) in found {
        by_key.entry(key).or_default().push((detail, scenario, index));
    }
    let mut violation_summaries: Vec<J> = Vec::new();
    for (key, mut witnesses) in by_key {
        if let Some(foreign) = key.strip_prefix("OOS:") {
            witnesses.sort_by_key(|w| w.2);
            let (detail, scenario, index) = witnesses.remove(0);
            let path = write_replay(check, foreign, &detail, &scenario, seed, index);
            lines.push(format!("note: out-of-scope divergence {} kept at {} :: {}", foreign, path.display(), first_line(&detail)));
            continue;
        }
        if known.iter().any(|k| k.property == check.id() && k.status == "known" && k.key == key) {
            continue;
        }
        unlisted += 1;
        // Deterministic choice: the witness with the lowest run index
        witnesses.sort_by_key(|w| w.2);
        let (detail, scenario, index) = witnesses.remove(0);
        if unlisted > 12 {
            lines.push(format!("note: further violation class not minimised: {} ({})", key, detail));
            continue;
        }
        if key.contains("/hang") {
            // Re-executing an endless loop would only poison this process too: report as found
            let path = write_replay(check, &key, &detail, &scenario, seed, index);
            lines.push(format!(
                "VIOLATION property={} replay={} key={} occurrences={} minimise_steps=0 :: {}",
                check.id(),
                path.display(),
                key,
                found_per_key.get(&key).copied().unwrap_or(1),
                first_line(&detail)
            ));
            continue;
        }
        if crate::world_a::poisoned() {
            // An earlier re-execution in this process ran into an endless loop: report the
            // remaining classes from their original witnesses without re-executing them
            let path = write_replay(check, &key, &detail, &scenario, seed, index);
            lines.push(format!(
                "VIOLATION property={} replay={} key={} occurrences={} minimise_steps=0 (not re-executed: process poisoned by a hang) :: {}",
                check.id(),
                path.display(),
                key,
                found_per_key.get(&key).copied().unwrap_or(1),
                first_line(&detail)
            ));
            continue;
        }
        // (150 s for one class, 400 s for all classes of one batch together)
        let left = 400u64.saturating_sub(minimise_started.elapsed().as_secs());
        let (small, small_detail, spent) = minimise(check, &cap, &scenario, &key, 1500, left.min(150));
        // The minimised scenario must fail the same way when executed again
        let confirmed = still_fails(check, &cap, &small, &key);
        let (final_scn, final_detail) = match confirmed {
            Some(d) => (small, d),
            None => {
                // Fall back to the original witness
                match still_fails(check, &cap, &scenario, &key) {
                    Some(d) => (scenario.clone(), d),
                    None => {
                        if crate::world_a::poisoned() {
                            // The re-execution itself ran into the endless loop: keep the
                            // original witness, which the worker did observe
                            lines.push(format!("note: {} could not be re-executed here (hang); reporting the worker's witness", key));
                        } else if (key.contains("/pty") || key.contains("/real-watch/")) && (0..3).any(|_| still_fails(check, &cap, &scenario, &key).is_some()) {
                            // Worlds paced by real time: the system under test races with its
                            // own terminal or file-system notifications; seen again on a retry
                            lines.push(format!("note: {} reproduces only on some executions (a race inside the program under test)", key));
                        } else if key.contains("/pty") || key.contains("/real-watch/") {
                            // The worker saw it in two consecutive executions of the scenario
                            // (that is the rule of these worlds); here it did not show in five
                            lines.push(format!(
                                "note: {} was observed twice in a row by a worker but not by the orchestrator: timing-dependent behaviour of the program under test; reporting the worker's witness",
                                key
                            ));
                        } else {
                            lines.push(format!(
                                "harness error: violation {} of run {} does not reproduce",
                                key, index
                            ));
                            harness_error = true;
                        }
                        (scenario.clone(), detail.clone())
                    }
                }
            }
        };
        let _ = small_detail;
        let path = write_replay(check, &key, &final_detail, &final_scn, seed, index);
        lines.push(format!(
            "VIOLATION property={} replay={} key={} occurrences={} minimise_steps={} :: {}",
            check.id(),
            path.display(),
            key,
            found_per_key.get(&key).copied().unwrap_or(1),
            spent,
            first_line(&final_detail)
        ));
        violation_summaries.push(
            J::obj()
                .set("key", key.as_str())
                .set("replay", path.display().to_string())
                .set("detail", final_detail.as_str()),
        );
    }
    cap.restore();

    // Probes that stayed at zero
    let mut stuck: Vec<String> = Vec::new();
    for p in check.expected_probes() {
        if counters.get(p).copied().unwrap_or(0) == 0 {
            stuck.push(p.to_string());
        }
    }

    let wall = started.elapsed().as_secs_f64();
    let distinct = signatures.len() as u64;

    // Evidence
    let map = |m: &BTreeMap<String, u64>| J::Obj(m.iter().map(|(k, v)| (k.clone(), J::from(*v))).collect());
    let split = |prefix: &str| -> J {
        J::Obj(
            counters
                .iter()
                .filter(|(k, _)| k.starts_with(prefix))
                .map(|(k, v)| (k[prefix.len()..].to_string(), J::from(*v)))
                .collect(),
        )
    };
    if samples.is_empty() {
        // Evidence must show at least one actual case
        samples.push(check.generate(seed, 0));
    }
    let coverage = J::obj()
        .set("evaluations", evaluations)
        .set("distinct_nontrivial", distinct)
        .set("nontrivial_runs", nontrivial)
        .set("rule", check.rule())
        .set("samples", J::Arr(samples))
        .set("exhaustive", false)
        .set("world", check.world())
        .set("runs_per_hour", if wall > 0.0 { (evaluations as f64 / wall * 3600.0) as u64 } else { 0 })
        .set("first_run_index", 0u64)
        .set("seeds", J::obj().set("master", seed).set("count", evaluations))
        .set("sim_ticks_total", sim_ticks)
        .set("fault_counts", split("fault:"))
        .set("probes", split("probe:"))
        .set("adopted_steps", split("adopted:"))
        .set("other_counters", J::Obj(
            counters
                .iter()
                .filter(|(k, _)| !k.starts_with("fault:") && !k.starts_with("probe:") && !k.starts_with("adopted:"))
                .map(|(k, v)| (k.clone(), J::from(*v)))
                .collect(),
        ))
        .set("probes_stuck_at_zero", J::Arr(stuck.iter().map(|s| J::from(s.as_str())).collect()))
        .set("discarded_candidates", map(&discarded))
        .set("out_of_scope_divergences", map(&out_of_scope))
        .set("violation_classes", map(&found_per_key))
        .set("known_findings_matched", map(&known_matched))
        .set("violations_reported", J::Arr(violation_summaries))
        .set("determinism_recheck", J::obj().set("runs", recheck_runs).set("mismatches", recheck_mismatches))
        .set("event_log_fingerprint", format!("{:016x}", log_xor))
        .set("workers", n)
        .set("build_profile", if cfg!(debug_assertions) { "dev (debug assertions and overflow checks on)" } else { "release (wrapping arithmetic, no debug assertions)" })
        .set("timed_out", timed_out)
        .set("components", check.components());
    let evidence = J::obj()
        .set("property_id", check.id())
        .set("tier", tier.name())
        .set("seed", seed)
        .set("level", check.level())
        .set("coverage", coverage)
        .set("assumptions", J::Arr(check.assumptions().into_iter().map(J::from).collect()))
        .set("wall_s", wall)
        .set("violations", unlisted);
    let ev_dir = verif_dir().join("evidence");
    let _ = std::fs::create_dir_all(&ev_dir);
    // A side run (the release-profile sample of the thorough tier) writes its own file
    let ev_name = std::env::var("VERIF_EVIDENCE_NAME").unwrap_or_else(|_| format!("{}.json", check.id()));
    let ev_path = ev_dir.join(ev_name);
    if let Err(e) = std::fs::write(&ev_path, evidence.to_pretty()) {
        eprintln!("harness error: cannot write evidence {}: {}", ev_path.display(), e);
        harness_error = true;
    }

    for l in &lines {
        println!("{}", l);
    }
    for s in &stuck {
        println!("warning: probe stuck at zero: {}", s);
    }
    println!(
        "summary {}: evaluations={} nontrivial={} distinct={} discarded={} out_of_scope={} unlisted_violation_classes={} sim_ticks={} wall={:.1}s fingerprint={:016x}",
        check.id(),
        evaluations,
        nontrivial,
        distinct,
        discarded.values().sum::<u64>(),
        out_of_scope.values().sum::<u64>(),
        unlisted,
        sim_ticks,
        wall,
        log_xor
    );
    let _ = std::io::stdout().flush();

    if determinism_lost {
        if unlisted > 0 {
            println!(
                "note: {} of {} re-executed runs gave a different event log; the reported violations make the system depend on process history",
                recheck_mismatches, recheck_runs
            );
        } else {
            eprintln!(
                "harness error: determinism re-check failed on {} of {} re-executed runs",
                recheck_mismatches, recheck_runs
            );
            harness_error = true;
        }
    }
    if harness_error {
        2
    } else if unlisted > 0 {
        1
    } else {
        0
    }
}

fn first_line(s: &str) -> String {
    let l = s.lines().next().unwrap_or("");
    if l.len() > 300 {
        format!("{}…", &l[..l.char_indices().take(300).last().map(|(i, _)| i).unwrap_or(0)])
    } else {
        l.to_string()
    }
}

/// Replay a file written by `write_replay`. Exit 1 if the violation reproduces (that is what a
/// replay is for), 0 if not.
pub fn replay(check: &dyn Check, path: &Path) -> i32 {
    let Ok(text) = std::fs::read_to_string(path) else {
        eprintln!("cannot read {}", path.display());
        return 2;
    };
    let Ok(j) = J::parse(&text) else {
        eprintln!("cannot parse {}", path.display());
        return 2;
    };
    let Some(scenario) = j.get("scenario") else {
        eprintln!("no scenario in {}", path.display());
        return 2;
    };
    let key = j.get_str("key").unwrap_or("");
    let cap = Capture::install();
    crate::world_a::install_panic_hook();
    let report = check.execute(&cap, scenario);
    cap.restore();
    let mut hit = false;
    for v in &report.violations {
        println!("{} {} :: {}", v.prop, v.key, v.detail);
        if v.prop == check.id() && (key.is_empty() || v.key == key) {
            hit = true;
        }
    }
    if let Some(d) = &report.discarded {
        println!("discarded: {}", d);
    }
    if hit {
        println!("VIOLATION property={} replay={}", check.id(), path.display());
        1
    } else {
        println!("replay: violation {} did not reproduce", key);
        0
    }
}
