//! World B': the shipped `lace debug` process on a real pseudo-terminal.
//!
//! Ties the simulated key device of world D to the real thing: key bytes are written to the
//! master side of a pty, crossterm decodes them in the child, raw mode is really switched, the
//! prompt is really redrawn and the history file is really appended to.
//!
//! Pacing is by feedback, never by sleeping for a guessed time: the child prints one newline on
//! its (piped) standard output per Enter key, and the harness only writes the keys of the next
//! line once the terminal is in raw mode again (typed-ahead bytes that arrive while the child has
//! the terminal in cooked mode would be mangled by the line discipline - real behaviour, but not
//! a deterministic one). The only clock is the stall guard.

use std::ffi::CStr;
use std::os::fd::{AsRawFd, FromRawFd, OwnedFd, RawFd};
use std::os::unix::process::CommandExt;
use std::path::Path;
use std::process::{Command, Stdio};
use std::time::{Duration, Instant};

use crate::world_a::Key2;
use crate::world_b::{lace_bin, Scratch};

pub const STALL_GUARD: Duration = Duration::from_secs(8);

/// Bytes a terminal sends for a key (xterm conventions).
pub fn key_bytes(key: &Key2) -> Vec<u8> {
    match key {
        Key2::Enter => b"\r".to_vec(),
        Key2::Backspace => vec![0x7f],
        Key2::Delete => b"\x1b[3~".to_vec(),
        Key2::Left => b"\x1b[D".to_vec(),
        Key2::Right => b"\x1b[C".to_vec(),
        Key2::Up => b"\x1b[A".to_vec(),
        Key2::Down => b"\x1b[B".to_vec(),
        Key2::CtrlLeft => b"\x1b[1;5D".to_vec(),
        Key2::CtrlRight => b"\x1b[1;5C".to_vec(),
        Key2::Char(c) => {
            let mut buf = [0u8; 4];
            c.encode_utf8(&mut buf).as_bytes().to_vec()
        }
    }
}

/// One chunk of typing: the keys up to and including an Enter.
pub struct Chunk {
    pub bytes: Vec<u8>,
    /// Does the reference editor submit a line on this Enter (the child then leaves raw mode,
    /// runs the line and comes back)?
    pub submits: bool,
    /// Written together with the next chunk in one `write` (a paste, or fast typing ahead).
    pub with_next: bool,
    /// Keys the *program* reads while this line's command runs (GETC/IN on the terminal): each
    /// is typed once the terminal is in raw mode again after the line's newline.
    pub program_keys: Vec<Vec<u8>>,
}

/// How the environment of the session is set up.
#[derive(Clone, Debug, Default)]
pub struct PtyEnv {
    /// The cache directory: "" exists, "missing" does not exist, "under_file" cannot exist.
    pub cache_dir: String,
    /// File size limit (RLIMIT_FSIZE, SIGXFSZ ignored): appending to the history file fails
    /// beyond it.
    pub fsize_limit: Option<u64>,
}

#[derive(Debug, Default)]
pub struct PtyRun {
    pub status: Option<i32>,
    pub stdout: Vec<u8>,
    /// Everything the child wrote to the terminal (prompt redraws, error messages, echo).
    pub tty: Vec<u8>,
    pub history_after: Option<Vec<u8>>,
    /// The session did not react within the stall guard: what was being waited for.
    pub stalled: Option<String>,
    pub spawn_error: Option<String>,
}

fn open_pty(cols: u16) -> Result<(OwnedFd, OwnedFd), String> {
    unsafe {
        let master = libc::posix_openpt(libc::O_RDWR | libc::O_NOCTTY | libc::O_CLOEXEC);
        if master < 0 {
            return Err("posix_openpt".into());
        }
        let master = OwnedFd::from_raw_fd(master);
        if libc::grantpt(master.as_raw_fd()) != 0 || libc::unlockpt(master.as_raw_fd()) != 0 {
            return Err("grantpt/unlockpt".into());
        }
        let mut name = [0 as libc::c_char; 128];
        if libc::ptsname_r(master.as_raw_fd(), name.as_mut_ptr(), name.len()) != 0 {
            return Err("ptsname_r".into());
        }
        let slave = libc::open(CStr::from_ptr(name.as_ptr()).as_ptr(), libc::O_RDWR | libc::O_NOCTTY | libc::O_CLOEXEC);
        if slave < 0 {
            return Err("open slave".into());
        }
        let slave = OwnedFd::from_raw_fd(slave);
        let size = libc::winsize {
            ws_row: 24,
            ws_col: cols,
            ws_xpixel: 0,
            ws_ypixel: 0,
        };
        libc::ioctl(master.as_raw_fd(), libc::TIOCSWINSZ, &size);
        Ok((master, slave))
    }
}

fn set_nonblocking(fd: RawFd) {
    unsafe {
        let flags = libc::fcntl(fd, libc::F_GETFL);
        libc::fcntl(fd, libc::F_SETFL, flags | libc::O_NONBLOCK);
    }
}

fn drain(fd: RawFd, into: &mut Vec<u8>) {
    let mut buf = [0u8; 8192];
    loop {
        let n = unsafe { libc::read(fd, buf.as_mut_ptr() as *mut libc::c_void, buf.len()) };
        if n <= 0 {
            break;
        }
        into.extend_from_slice(&buf[..n as usize]);
    }
}

fn is_raw(master: RawFd) -> bool {
    unsafe {
        let mut t: libc::termios = std::mem::zeroed();
        if libc::tcgetattr(master, &mut t) != 0 {
            return false;
        }
        t.c_lflag & libc::ICANON == 0
    }
}

/// Newlines on standard output after the last status line that precedes the program's output.
fn newlines(stdout: &[u8]) -> usize {
    let marker = &crate::world_b::framing().before;
    match stdout.windows(marker.len()).position(|w| w == &marker[..]) {
        Some(at) => stdout[at + marker.len()..].iter().filter(|b| **b == b'\n').count(),
        None => 0,
    }
}

/// Run `lace debug <asm>` on a pty, typing `chunks`. `history_before`: contents of the history
/// file before the session (`None`: no file).
pub fn run_pty(scratch: &Scratch, asm: &Path, minimal: bool, cols: u16, history_before: Option<&[u8]>, chunks: &[Chunk]) -> PtyRun {
    run_pty_in(scratch, asm, minimal, cols, history_before, chunks, &PtyEnv::default())
}

pub fn run_pty_in(scratch: &Scratch, asm: &Path, minimal: bool, cols: u16, history_before: Option<&[u8]>, chunks: &[Chunk], env: &PtyEnv) -> PtyRun {
    let mut run = PtyRun::default();
    let cache = match env.cache_dir.as_str() {
        "missing" => scratch.path("no-such-cache"),
        "under_file" => {
            let _ = std::fs::write(scratch.path("a-file"), b"x");
            scratch.path("a-file").join("cache")
        }
        _ => scratch.path("cache"),
    };
    if env.cache_dir.is_empty() {
        let _ = std::fs::create_dir_all(&cache);
    }
    let history_file = cache.join("lace-debugger-history");
    let _ = std::fs::remove_file(&history_file);
    if let Some(bytes) = history_before {
        let _ = std::fs::write(&history_file, bytes);
    }
    let (master, slave) = match open_pty(cols) {
        Ok(p) => p,
        Err(e) => {
            run.spawn_error = Some(e);
            return run;
        }
    };
    let (Ok(slave_in), Ok(slave_err)) = (slave.try_clone(), slave.try_clone()) else {
        run.spawn_error = Some("dup".into());
        return run;
    };
    let mut cmd = Command::new(lace_bin());
    cmd.arg("debug").arg(asm);
    if minimal {
        cmd.arg("--minimal");
    }
    cmd.current_dir(&scratch.dir)
        .env_clear()
        .env("HOME", &scratch.dir)
        .env("XDG_CACHE_HOME", &cache)
        .env("PATH", "/usr/bin:/bin")
        .env("TERM", "xterm-256color")
        .stdin(Stdio::from(slave_in))
        .stderr(Stdio::from(slave_err))
        .stdout(Stdio::piped());
    let fsize_limit = env.fsize_limit;
    unsafe {
        cmd.pre_exec(move || {
            if let Some(limit) = fsize_limit {
                // A genuine failing append (EFBIG) instead of a fatal signal
                libc::signal(libc::SIGXFSZ, libc::SIG_IGN);
                let lim = libc::rlimit {
                    rlim_cur: limit,
                    rlim_max: limit,
                };
                libc::setrlimit(libc::RLIMIT_FSIZE, &lim);
            }
            // Own session with the pty as controlling terminal, like a shell would set it up
            libc::prctl(libc::PR_SET_PDEATHSIG, libc::SIGKILL);
            libc::setsid();
            libc::ioctl(0, libc::TIOCSCTTY, 0);
            Ok(())
        });
    }
    let mut child = match cmd.spawn() {
        Ok(c) => c,
        Err(e) => {
            run.spawn_error = Some(format!("spawn: {}", e));
            return run;
        }
    };
    drop(slave);
    let out_pipe = child.stdout.take().expect("piped");
    let m = master.as_raw_fd();
    let o = out_pipe.as_raw_fd();
    set_nonblocking(m);
    set_nonblocking(o);

    let mut exited: Option<std::process::ExitStatus> = None;
    // Wait until `cond` holds (or the child has exited); drains both streams meanwhile
    let mut wait = |run: &mut PtyRun, child: &mut std::process::Child, exited: &mut Option<std::process::ExitStatus>, what: &str, cond: &dyn Fn(&PtyRun) -> bool| -> bool {
        let started = Instant::now();
        let mut spins = 0u32;
        loop {
            drain(m, &mut run.tty);
            drain(o, &mut run.stdout);
            if cond(run) {
                return true;
            }
            if exited.is_none() {
                if let Ok(Some(status)) = child.try_wait() {
                    *exited = Some(status);
                    drain(m, &mut run.tty);
                    drain(o, &mut run.stdout);
                    return cond(run);
                }
            } else {
                return false;
            }
            if started.elapsed() > STALL_GUARD {
                run.stalled = Some(what.to_string());
                return false;
            }
            spins += 1;
            if spins > 50 {
                std::thread::sleep(Duration::from_micros(200));
            } else {
                std::thread::yield_now();
            }
        }
    };

    let mut ok = wait(&mut run, &mut child, &mut exited, "raw mode before the first key", &|_| is_raw(m));
    let mut enters = 0usize;
    let mut pending: Vec<u8> = Vec::new();
    let mut pending_submits = false;
    for (i, chunk) in chunks.iter().enumerate() {
        if !ok || exited.is_some() {
            break;
        }
        pending.extend_from_slice(&chunk.bytes);
        pending_submits |= chunk.submits;
        enters += 1;
        if chunk.with_next && i + 1 < chunks.len() && pending.len() < 700 {
            continue;
        }
        let written = unsafe { libc::write(m, pending.as_ptr() as *const libc::c_void, pending.len()) };
        if written != pending.len() as isize {
            run.stalled = Some(format!("write of chunk {}", i));
            break;
        }
        pending.clear();
        let want = enters;
        // The line feed that answers an Enter key: on standard output or on the terminal,
        // whichever stream this tree sends it to
        let fed_before = newlines(&run.stdout) + run.tty.iter().filter(|b| **b == b'\n').count();
        if chunk.program_keys.is_empty() {
            // (one per Enter on standard output, or one more row with a prompt on the terminal:
            // neither count can run ahead of the Enter keys the child has taken)
            ok = wait(&mut run, &mut child, &mut exited, &format!("newline for Enter #{}", want), &|r| {
                newlines(&r.stdout) >= want || prompt_rows(&r.tty) > want
            });
        } else {
            // (the next prompt only comes once the program has had its keys: any line feed since
            // the line was typed; everything older had been read before it was typed)
            ok = wait(&mut run, &mut child, &mut exited, &format!("newline for Enter #{}", want), &|r| {
                newlines(&r.stdout) + r.tty.iter().filter(|b| **b == b'\n').count() > fed_before
            });
        }
        let mut shots_before = redraws(&run.tty).len();
        for (k, key) in chunk.program_keys.iter().enumerate() {
            if !ok || exited.is_some() {
                break;
            }
            // The program is waiting for a key: the terminal is raw again
            ok = wait(&mut run, &mut child, &mut exited, &format!("raw mode for program input #{} of line #{}", k, want), &|_| is_raw(m));
            if ok {
                shots_before = redraws(&run.tty).len();
                let written = unsafe { libc::write(m, key.as_ptr() as *const libc::c_void, key.len()) };
                ok = written == key.len() as isize;
            }
        }
        if ok && !chunk.program_keys.is_empty() && i + 1 < chunks.len() {
            // The next prompt: an empty line drawn after the program had its last key
            ok = wait(&mut run, &mut child, &mut exited, &format!("prompt after line #{}", want), &|r| {
                let shots = redraws(&r.tty);
                shots.len() > shots_before && shots.last().map(|(t, c)| t.is_empty() && *c == 0).unwrap_or(false)
            });
        }
        if ok && pending_submits && i + 1 < chunks.len() {
            ok = wait(&mut run, &mut child, &mut exited, &format!("raw mode after line #{}", want), &|_| is_raw(m));
        }
        pending_submits = false;
    }
    // The last chunk ends the session
    if exited.is_none() && run.stalled.is_none() {
        let started = Instant::now();
        loop {
            drain(m, &mut run.tty);
            drain(o, &mut run.stdout);
            if let Ok(Some(status)) = child.try_wait() {
                exited = Some(status);
                break;
            }
            if started.elapsed() > STALL_GUARD {
                run.stalled = Some("end of the session after the last line".into());
                break;
            }
            std::thread::sleep(Duration::from_micros(200));
        }
    }
    if exited.is_none() {
        let _ = child.kill();
        exited = child.wait().ok();
    }
    drain(m, &mut run.tty);
    drain(o, &mut run.stdout);
    run.status = exited.and_then(|s| s.code());
    run.history_after = history_file_in(&cache);
    run
}

/// The debugger's history file under a cache directory: the documented place, or else the one
/// regular file found beneath the directory (a tree that keeps its history elsewhere under the
/// user's cache directory still keeps it).
pub fn history_file_in(cache: &Path) -> Option<Vec<u8>> {
    if let Ok(bytes) = std::fs::read(cache.join("lace-debugger-history")) {
        return Some(bytes);
    }
    let mut found: Vec<std::path::PathBuf> = Vec::new();
    let mut stack = vec![cache.to_path_buf()];
    while let Some(dir) = stack.pop() {
        let Ok(entries) = std::fs::read_dir(&dir) else { continue };
        for e in entries.flatten() {
            match e.file_type() {
                Ok(t) if t.is_dir() => stack.push(e.path()),
                Ok(t) if t.is_file() => found.push(e.path()),
                _ => {}
            }
        }
    }
    if found.len() == 1 {
        std::fs::read(&found[0]).ok()
    } else {
        None
    }
}

/// Is `after` the history file `before` with `entries` appended? Byte for byte one line per
/// entry; or, read the way a history file is read (lines, blank ones are nothing), the old
/// bytes followed by exactly the new entries (an old file without a final line break may or may
/// not get one before the first new entry).
pub fn history_appended(before: &[u8], after: &[u8], entries: &[String]) -> bool {
    let mut want = before.to_vec();
    for line in entries {
        want.extend_from_slice(line.as_bytes());
        want.push(b'\n');
    }
    if after == &want[..] {
        return true;
    }
    let Some(rest) = after.strip_prefix(before) else { return false };
    if !rest.is_empty() && !rest.ends_with(b"\n") {
        return false;
    }
    let lines: Vec<&[u8]> = rest
        .split(|b| *b == b'\n')
        .map(|l| l.strip_suffix(b"\r").unwrap_or(l))
        .filter(|l| !l.iter().all(|b| *b == b' ' || *b == b'\t'))
        .collect();
    lines.len() == entries.len() && lines.iter().zip(entries).all(|(l, e)| *l == e.as_bytes())
}

/// The prompt redraws in the terminal output, as a terminal would show them: (text of the
/// edited line, cursor position in characters from its start).
///
/// The output is run through a one-line terminal emulator (printable characters, `\r`, `\n`,
/// erase-in-line, cursor-to-column; colours are ignored); a redraw is complete when the cursor
/// is put to its column. The prompt is whatever the first redraw shows (the edited line is
/// empty then), so neither its wording nor the escape sequences used to draw it matter.
pub fn redraws(tty: &[u8]) -> Vec<(String, usize)> {
    shots(tty).into_iter().map(|(text, cursor, _)| (text, cursor)).collect()
}

/// Consecutive equal redraws count once: whether a key that changes nothing is answered by
/// drawing the same picture again or by drawing nothing is not something a user can see.
pub fn distinct(redraws: &[(String, usize)]) -> Vec<(String, usize)> {
    let mut out: Vec<(String, usize)> = Vec::new();
    for r in redraws {
        if out.last() != Some(r) {
            out.push(r.clone());
        }
    }
    out
}

/// Number of terminal rows on which a prompt was drawn (the first redraw of each row): one per
/// line feed on the terminal that was followed by a prompt.
pub fn prompt_rows(tty: &[u8]) -> usize {
    let shots = shots(tty);
    let mut rows = 0usize;
    let mut last: Option<usize> = None;
    for (_, _, row) in &shots {
        if last != Some(*row) {
            rows += 1;
            last = Some(*row);
        }
    }
    rows
}

/// Redraws with the terminal row (counted in line feeds) they were drawn on.
fn shots(tty: &[u8]) -> Vec<(String, usize, usize)> {
    let text = String::from_utf8_lossy(tty);
    let chars: Vec<char> = text.chars().collect();
    let mut line: Vec<char> = Vec::new();
    let mut col = 0usize;
    let mut shots: Vec<(String, usize, usize)> = Vec::new();
    let mut row = 0usize;
    let mut i = 0usize;
    while i < chars.len() {
        let c = chars[i];
        if c == '\u{1b}' && chars.get(i + 1) == Some(&'[') {
            // Control sequence: parameters, then one final letter
            let mut j = i + 2;
            let mut params = String::new();
            while j < chars.len() && !chars[j].is_ascii_alphabetic() && chars[j] != '~' {
                params.push(chars[j]);
                j += 1;
            }
            let final_byte = chars.get(j).copied().unwrap_or('m');
            let first: usize = params.split(';').next().and_then(|p| p.parse().ok()).unwrap_or(0);
            match final_byte {
                'K' => match first {
                    0 => line.truncate(col),
                    1 => {
                        for k in 0..col.min(line.len()) {
                            line[k] = ' ';
                        }
                    }
                    _ => line.clear(),
                },
                'G' | 'C' | 'D' => {
                    col = match final_byte {
                        'G' => first.max(1) - 1,
                        'C' => col + first.max(1),
                        _ => col.saturating_sub(first.max(1)),
                    };
                    // Whichever sequence puts the cursor to its column ends a redraw (a cursor
                    // put to the first column of an empty line is the start of one, not its end)
                    if !(col == 0 && line.is_empty()) {
                        shots.push((line.iter().collect(), col, row));
                    }
                }
                _ => {}
            }
            i = j + 1;
            continue;
        }
        match c {
            '\r' => col = 0,
            '\n' => {
                line.clear();
                col = 0;
                row += 1;
            }
            '\u{8}' => col = col.saturating_sub(1),
            c if (c as u32) < 0x20 => {}
            c => {
                while line.len() < col {
                    line.push(' ');
                }
                if col < line.len() {
                    line[col] = c;
                } else {
                    line.push(c);
                }
                col += 1;
            }
        }
        i += 1;
    }
    // The prompt: what the first redraw shows, with the cursor right behind it
    let Some((prompt, width, _)) = shots.first().cloned() else {
        return Vec::new();
    };
    if prompt.chars().count() != width {
        // Not understood: every redraw as shown, cursor as a column
        return shots;
    }
    shots
        .into_iter()
        .map(|(shown, cursor, row)| match shown.strip_prefix(&prompt) {
            Some(rest) => (rest.to_string(), cursor.saturating_sub(width), row),
            None => (shown, cursor, row),
        })
        .collect()
}
