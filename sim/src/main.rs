//! lace-sim: deterministic simulation with fault injection for rozukke/lace.
//!
//!   lace-sim check <ID> <quick|thorough>
//!   lace-sim replay <ID> <file>
//!   lace-sim worker <ID> <tier> <seed> <k> <n> <total> <out>     (internal)
//!   lace-sim show <ID> <index>                                   (print a generated scenario)

mod capture;
mod engine;
mod gen;
mod gen_script;
mod json;
mod model;
mod props;
mod rng;
mod scn;
mod script;
mod session;
mod world_a;
mod world_b;
mod world_gate;
mod world_pty;
mod world_watch;

use engine::Tier;

fn tier_of(s: &str) -> Tier {
    match s {
        "thorough" => Tier::Thorough,
        _ => Tier::Quick,
    }
}

fn main() {
    let args: Vec<String> = std::env::args().collect();
    let code = real_main(&args);
    // The scratch cache directory of this process (C20's history file), if one was made
    for base in [std::path::PathBuf::from("/dev/shm"), std::env::temp_dir()] {
        let _ = std::fs::remove_dir_all(base.join(format!("lace-simd-cache-{}", std::process::id())));
    }
    std::process::exit(code);
}

fn real_main(args: &[String]) -> i32 {
    let usage = || {
        eprintln!("usage: lace-sim check <ID> <quick|thorough> | replay <ID> <file> | show <ID> <index>");
        2
    };
    if args.len() < 2 {
        return usage();
    }
    match args[1].as_str() {
        "check" if args.len() >= 3 => {
            let Some(check) = props::by_id(&args[2]) else {
                eprintln!("unknown property {}", args[2]);
                return 2;
            };
            let tier = std::env::var("VERIF_TIER")
                .ok()
                .map(|t| tier_of(&t))
                .unwrap_or_else(|| tier_of(args.get(3).map(|s| s.as_str()).unwrap_or("quick")));
            let tier = if args.len() >= 4 { tier_of(&args[3]) } else { tier };
            engine::run_check(check, tier)
        }
        "replay" if args.len() >= 4 => {
            let Some(check) = props::by_id(&args[2]) else {
                eprintln!("unknown property {}", args[2]);
                return 2;
            };
            engine::replay(check, std::path::Path::new(&args[3]))
        }
        "worker" if args.len() >= 9 => {
            let Some(check) = props::by_id(&args[2]) else {
                return 2;
            };
            let tier = tier_of(&args[3]);
            let p = |i: usize| args[i].parse::<u64>().unwrap_or(0);
            engine::worker(check, tier, p(4), p(5), p(6).max(1), p(7), std::path::Path::new(&args[8]))
        }
        "c19-fresh" => {
            world_a::install_panic_hook();
            props::c19::fresh_helper(args.get(2).map(|s| s == "stack").unwrap_or(false))
        }
        "miri-c19" => {
            // No panic hook, no capture: Miri reports undefined behaviour on its own
            let n = args.get(2).and_then(|s| s.parse::<u64>().ok()).unwrap_or(4);
            let seed = args.get(3).and_then(|s| s.parse::<u64>().ok()).unwrap_or(engine::DEFAULT_SEED);
            props::c19::miri_tier(n, seed)
        }
        "show" if args.len() >= 4 => {
            let Some(check) = props::by_id(&args[2]) else {
                return 2;
            };
            let index = args[3].parse::<u64>().unwrap_or(0);
            let scenario = check.generate(engine::master_seed(), index);
            println!("{}", scenario.to_pretty());
            if let Some(r) = scenario.get("program").and_then(|p| p.get_str("rendered")) {
                println!("{}", r);
            }
            0
        }
        _ => usage(),
    }
}
