//! RefDbg: the debugger's documented control semantics (help.txt, the `Status` doc comments,
//! the statements of C10/C11/C13/C15) on top of RefVm. Shares no code with lace.
//!
//! Location arithmetic is done in true integers; a target is valid iff it lies in
//! [origin, 0xFE00).

use std::collections::BTreeSet;

use crate::model::vm::{is_call, is_halt, is_return, Io, Stop, Vm, USER_END};
use crate::script::{Cmd, EvalKind, Loc, Target};

#[derive(Clone, Debug, PartialEq)]
pub enum PauseReason {
    /// Initial pause, or after a command that does not resume.
    Command,
    Breakpoint(u16),
    Halt,
    OutOfBounds,
    /// The stepping command ran to its promised end.
    Done,
}

/// How a session step ended.
#[derive(Clone, Debug, PartialEq)]
pub enum After {
    /// Paused again (debugger still attached).
    Paused(PauseReason),
    /// The program ended the process from inside an instruction (exception / disabled opcode /
    /// exhausted input) with this status.
    Exited(i32),
    /// `exit`: the session ended, machine as is.
    SessionExit,
    /// `quit` / end of input: detached; the program then ran to this stop.
    Detached(Option<Stop>),
    /// RTI reached: unspecified.
    Unspecified,
    /// The instruction budget of the model ran out (scenario is discarded).
    Budget,
}

#[derive(Clone, Debug, PartialEq)]
pub struct Outcome {
    pub executed: u64,
    pub after: After,
    /// The command was refused (no effect) — for bookkeeping and attribution.
    pub refused: bool,
}

#[derive(Clone, Copy, Debug, PartialEq)]
pub enum StepOverPolicy {
    /// Pause when the call stepped over has returned (call depth back to zero).
    WholeSubroutine,
    /// Pause at the first arrival at the following address, at any call depth.
    FirstArrival,
}

#[derive(Clone, Copy, Debug, PartialEq)]
pub struct Policy {
    pub step_over: StepOverPolicy,
    /// `step out` with the stack feature off is refused.
    pub step_out_refused_without_stack: bool,
    /// Resuming while PC sits on a breakpoint that did not cause the current pause pauses at
    /// once (0 instructions) instead of executing it.
    pub fresh_breakpoint_pauses_at_once: bool,
    /// `eval` of a PC-relative instruction whose label is farther from the PC than the 9-bit
    /// field reaches is refused (it cannot be encoded) instead of taking effect.
    pub eval_far_label_refused: bool,
}

impl Policy {
    pub const STRICT: Policy = Policy {
        step_over: StepOverPolicy::WholeSubroutine,
        step_out_refused_without_stack: true,
        fresh_breakpoint_pauses_at_once: false,
        eval_far_label_refused: false,
    };
}

#[derive(Clone)]
pub struct Dbg {
    pub vm: Vm,
    pub io: Io,
    pub bps: BTreeSet<u16>,
    /// Breakpoint address that caused the current pause, if any.
    pub paused_on_bp: Option<u16>,
    /// State right after load.
    pub initial: Vm,
    /// Label name -> address.
    pub labels: Vec<(String, u16)>,
    /// Instructions the model may still execute.
    pub budget: u64,
    pub executed_total: u64,
}

impl Dbg {
    pub fn new(vm: Vm, breakpoints: &[u16], labels: Vec<(String, u16)>, budget: u64) -> Dbg {
        let bps: BTreeSet<u16> = breakpoints.iter().copied().collect();
        let paused_on_bp = if bps.contains(&vm.pc) { Some(vm.pc) } else { None };
        Dbg {
            initial: vm.clone(),
            vm,
            io: Io::default(),
            bps,
            paused_on_bp,
            labels,
            budget,
            executed_total: 0,
        }
    }

    pub fn orig(&self) -> u16 {
        self.vm.orig
    }

    /// Resolve a location in true integers. `None`: refused (unknown label or outside
    /// [origin, 0xFE00) for label/PC forms, or not a 16-bit address).
    pub fn resolve(&self, loc: &Loc, must_be_user: bool) -> Option<u16> {
        let addr: i64 = match loc {
            Loc::Abs(a) => {
                if !(0..=0xFFFF).contains(a) {
                    return None;
                }
                *a
            }
            Loc::Label { name, off } => {
                let base = self.labels.iter().find(|(l, _)| l == name)?.1 as i64;
                // Offsets are 16-bit signed quantities in the grammar
                if !(-0x8000..=0x7FFF).contains(off) {
                    return None;
                }
                base + off
            }
            Loc::Pc(off) => {
                if !(-0x8000..=0x7FFF).contains(off) {
                    return None;
                }
                self.vm.pc as i64 + off
            }
        };
        let in_user = addr >= self.orig() as i64 && addr < USER_END as i64;
        match loc {
            // Label and PC forms are only meaningful inside user space
            Loc::Label { .. } | Loc::Pc(_) if !in_user => None,
            _ if must_be_user && !in_user => None,
            _ => Some(addr as u16),
        }
    }

    /// The initial pause and every pause after a non-resuming command.
    pub fn first_pause_reason(&self) -> PauseReason {
        self.interrupt_at_pc().unwrap_or(PauseReason::Command)
    }

    fn interrupt_at_pc(&self) -> Option<PauseReason> {
        let pc = self.vm.pc;
        if !self.vm.in_user_space(pc) {
            return Some(PauseReason::OutOfBounds);
        }
        if self.bps.contains(&pc) {
            return Some(PauseReason::Breakpoint(pc));
        }
        if is_halt(self.vm.mem[pc as usize]) {
            return Some(PauseReason::Halt);
        }
        None
    }

    /// Apply one command at a pause.
    pub fn apply(&mut self, cmd: &Cmd, policy: Policy) -> Outcome {
        let still = |refused: bool| Outcome {
            executed: 0,
            after: After::Paused(PauseReason::Command),
            refused,
        };
        match cmd {
            Cmd::Help | Cmd::Echo(_) | Cmd::Registers | Cmd::BreakList | Cmd::Print(_) | Cmd::Assembly(_) => still(false),
            Cmd::Garbage(_) => still(true),
            Cmd::Sudo => still(true),
            Cmd::Move(target, value) => {
                let v = *value as u16; // negative values are cast
                if !(-0x8000..=0xFFFF).contains(value) {
                    return still(true);
                }
                match target {
                    Target::Reg(r) => {
                        self.vm.reg[*r as usize] = v;
                        still(false)
                    }
                    Target::Mem(loc) => match self.resolve(loc, true) {
                        Some(a) => {
                            self.vm.mem[a as usize] = v;
                            still(false)
                        }
                        None => still(true),
                    },
                }
            }
            Cmd::Goto(loc) => match self.resolve(loc, true) {
                Some(a) => {
                    self.vm.pc = a;
                    self.paused_on_bp = None;
                    still(false)
                }
                None => still(true),
            },
            Cmd::BreakAdd(loc) => match self.resolve(loc, true) {
                Some(a) => {
                    let fresh = self.bps.insert(a);
                    still(!fresh)
                }
                None => still(true),
            },
            Cmd::BreakRemove(loc) => match self.resolve(loc, true) {
                Some(a) => {
                    let had = self.bps.remove(&a);
                    if had && self.paused_on_bp == Some(a) {
                        self.paused_on_bp = None;
                    }
                    still(!had)
                }
                None => still(true),
            },
            Cmd::Reset => {
                self.vm = self.initial.clone();
                self.paused_on_bp = None;
                still(false)
            }
            Cmd::Eval(instr) => {
                let refused = self.eval(&instr.kind, policy);
                still(refused)
            }
            Cmd::Exit => Outcome {
                executed: 0,
                after: After::SessionExit,
                refused: false,
            },
            Cmd::Quit => {
                // Detach: the program continues as if never attached
                let (stop, n) = self.vm.run(&mut self.io, self.budget, None);
                self.budget = self.budget.saturating_sub(n);
                self.executed_total += n;
                let after = match stop {
                    Some(Stop::Rti) => After::Unspecified,
                    None => After::Budget,
                    stop => After::Detached(stop),
                };
                Outcome {
                    executed: n,
                    after,
                    refused: false,
                }
            }
            Cmd::Step | Cmd::StepInto(_) | Cmd::StepOut | Cmd::Continue => self.resume(cmd, policy),
        }
    }

    /// `eval`: apply the instruction to the current state, PC not advanced. Returns `true` if
    /// refused.
    fn eval(&mut self, kind: &EvalKind, policy: Policy) -> bool {
        match kind {
            EvalKind::Refused => true,
            EvalKind::JumpLabel { label } => {
                let Some((_, addr)) = self.labels.iter().find(|(l, _)| l == label) else {
                    return true;
                };
                // An 11-bit field: a label out of its reach may be refused (adopted by the caller)
                let off = *addr as i64 - self.vm.pc as i64;
                if policy.eval_far_label_refused && !(-1000..=1000).contains(&off) {
                    return true;
                }
                self.vm.pc = *addr;
                false
            }
            EvalKind::JumpReg { reg } => {
                self.vm.pc = self.vm.reg[*reg as usize];
                false
            }
            EvalKind::Word(w) => {
                // A stop from inside an evaluated instruction cannot happen for generated forms
                let _ = self.vm.execute(*w, &mut self.io);
                false
            }
            EvalKind::LabelOp { op, reg, label } => {
                let Some((_, addr)) = self.labels.iter().find(|(l, _)| l == label) else {
                    return true;
                };
                let addr = *addr;
                if policy.eval_far_label_refused && self.eval_label_is_far(addr) {
                    return true;
                }
                // The label denotes its address wherever the PC is
                let r = *reg as usize;
                let m = &mut self.vm;
                match op {
                    0x2 => {
                        m.reg[r] = m.mem[addr as usize];
                        set_cc(m, m.reg[r]);
                    }
                    0x3 => m.mem[addr as usize] = m.reg[r],
                    0xA => {
                        m.reg[r] = m.mem[m.mem[addr as usize] as usize];
                        set_cc(m, m.reg[r]);
                    }
                    0xB => {
                        let ptr = m.mem[addr as usize];
                        m.mem[ptr as usize] = m.reg[r];
                    }
                    0xE => {
                        m.reg[r] = addr;
                        set_cc(m, addr);
                    }
                    _ => return true,
                }
                false
            }
        }
    }

    /// Is `addr` outside the reach of a 9-bit PC-relative field, whichever of the two readings
    /// ("at" PC or "before" it) the evaluated instruction is given?
    pub fn eval_label_is_far(&self, addr: u16) -> bool {
        let off = addr as i64 - self.vm.pc as i64;
        !(-255..=255).contains(&off)
    }

    fn resume(&mut self, cmd: &Cmd, policy: Policy) -> Outcome {
        let pc = self.vm.pc;
        let refused = |after: PauseReason| Outcome {
            executed: 0,
            after: After::Paused(after),
            refused: true,
        };
        if matches!(cmd, Cmd::StepOut) && !self.vm.stack_enabled && policy.step_out_refused_without_stack {
            return refused(PauseReason::Command);
        }
        // Outside user space nothing can execute; parked on HALT nothing may execute
        if !self.vm.in_user_space(pc) {
            return refused(PauseReason::OutOfBounds);
        }
        if is_halt(self.vm.mem[pc as usize]) {
            return refused(PauseReason::Halt);
        }
        if policy.fresh_breakpoint_pauses_at_once && self.bps.contains(&pc) && self.paused_on_bp != Some(pc) {
            self.paused_on_bp = Some(pc);
            return Outcome {
                executed: 0,
                after: After::Paused(PauseReason::Breakpoint(pc)),
                refused: false,
            };
        }

        let first = self.vm.mem[pc as usize];
        let stack = self.vm.stack_enabled;
        let mut remaining: u64 = match cmd {
            Cmd::StepInto(count) => count.unwrap_or(1).max(1) as u64,
            _ => 0,
        };
        let step_over_call = matches!(cmd, Cmd::Step) && is_call(first, stack);
        let return_addr = pc.wrapping_add(1);
        let mut depth: i64 = 0;
        let mut executed = 0u64;
        loop {
            if self.budget == 0 {
                return Outcome {
                    executed,
                    after: After::Budget,
                    refused: false,
                };
            }
            let at = self.vm.pc;
            let word = self.vm.mem[at as usize];
            let step = self.vm.step(&mut self.io);
            if step.fetched.is_some() {
                executed += 1;
                self.executed_total += 1;
                self.budget -= 1;
            }
            if let Some(stop) = step.stop {
                let after = match stop {
                    Stop::Rti => After::Unspecified,
                    s => match s.status() {
                        Some(code) if step.fetched.is_some() => After::Exited(code),
                        // Cannot happen: user-space PC was checked before the fetch
                        _ => After::Paused(PauseReason::OutOfBounds),
                    },
                };
                return Outcome {
                    executed,
                    after,
                    refused: false,
                };
            }
            if is_call(word, stack) {
                depth += 1;
            } else if is_return(word) {
                depth -= 1;
            }

            // Has the command run to its promised end?
            let done = match cmd {
                Cmd::StepInto(_) => {
                    remaining -= 1;
                    remaining == 0
                }
                Cmd::Step => {
                    if step_over_call {
                        match policy.step_over {
                            StepOverPolicy::WholeSubroutine => self.vm.pc == return_addr && depth <= 0,
                            StepOverPolicy::FirstArrival => self.vm.pc == return_addr,
                        }
                    } else {
                        true
                    }
                }
                Cmd::StepOut => is_return(word),
                _ => false,
            };

            // Interrupts at the new PC
            let new_pc = self.vm.pc;
            let reason = if !self.vm.in_user_space(new_pc) {
                Some(PauseReason::OutOfBounds)
            } else if self.bps.contains(&new_pc) {
                Some(PauseReason::Breakpoint(new_pc))
            } else if is_halt(self.vm.mem[new_pc as usize]) {
                Some(PauseReason::Halt)
            } else if done {
                Some(PauseReason::Done)
            } else {
                None
            };
            if let Some(reason) = reason {
                self.paused_on_bp = match reason {
                    PauseReason::Breakpoint(a) => Some(a),
                    _ => None,
                };
                return Outcome {
                    executed,
                    after: After::Paused(reason),
                    refused: false,
                };
            }
        }
    }
}

fn set_cc(m: &mut Vm, value: u16) {
    m.cc = if value & 0x8000 != 0 {
        0b100
    } else if value == 0 {
        0b010
    } else {
        0b001
    };
}
