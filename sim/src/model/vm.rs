//! RefVm: reference LC-3 machine with the documented PUSH/POP/CALL/RETS extension.
//!
//! Written from the LC-3 ISA tables, lace's README and the instruction-format comment in
//! `air.rs`; shares no code with lace. All arithmetic wraps modulo 2^16.

pub const USER_END: u16 = 0xFE00;
pub const HALT_PC: u16 = 0xFFFF;
pub const HALT_WORD: u16 = 0xF025;
/// What the HALT routine prints (decorative banner, fixed by the repository's own tests).
pub const HALT_BANNER: &[u8] = b"\n      Halted\n";

pub type Mem = Box<[u16; 0x10000]>;

pub fn new_mem() -> Mem {
    vec![0u16; 0x10000].into_boxed_slice().try_into().unwrap()
}

#[derive(Clone)]
pub struct Vm {
    pub mem: Mem,
    pub reg: [u16; 8],
    pub pc: u16,
    /// 3-bit NZP, 0 = none set.
    pub cc: u8,
    pub orig: u16,
    pub stack_enabled: bool,
    pub minimal: bool,
}

#[derive(Clone, Debug, PartialEq, Eq)]
pub enum Stop {
    /// PC is 0xFFFF (HALT executed earlier, or a jump there): normal end, status 0.
    Normal,
    /// PC below the origin: exception, status 0xEE.
    BelowOrigin,
    /// PC at or above 0xFE00 (and not 0xFFFF): exception, status 0xEE.
    AboveUser,
    /// Unknown trap vector: exception, status 0xEE.
    UnknownTrap(u8),
    /// Opcode 0xD with the stack feature off: status 1.
    StackDisabled,
    /// GETC/IN with the input exhausted: status 1.
    InputEof,
    /// RTI: documented as unimplemented; outside every claim.
    Rti,
}

impl Stop {
    pub fn status(&self) -> Option<i32> {
        match self {
            Stop::Normal => Some(0),
            Stop::BelowOrigin | Stop::AboveUser | Stop::UnknownTrap(_) => Some(0xEE),
            Stop::StackDisabled | Stop::InputEof => Some(1),
            Stop::Rti => None,
        }
    }
}

#[derive(Clone, Debug, PartialEq, Eq)]
pub enum LoadError {
    Empty,
    TooLong,
}

/// Input and output streams of the machine.
#[derive(Clone, Debug, Default)]
pub struct Io {
    pub input: Vec<u8>,
    pub input_pos: usize,
    pub output: Vec<u8>,
    /// Offsets in `output` from which the expected text is not fully determined by the
    /// documentation (see `adopted`): comparison of this run's output stops at the first one.
    pub adopted_at: Option<usize>,
    pub adopted: u64,
    /// Number of GETC/IN executions (including the one that found the input exhausted).
    pub input_requests: u64,
}

impl Io {
    pub fn with_input(input: &[u8]) -> Io {
        Io {
            input: input.to_vec(),
            ..Default::default()
        }
    }
    fn put_char(&mut self, code: u32, minimal: bool) {
        // Characters are Unicode scalar values U+0000..U+00FF (or U+FFFD), UTF-8 on the wire.
        // In minimal mode the output layer strips ANSI escapes per printed item: a lone ESC.
        if minimal && code == 0x1b {
            return;
        }
        let ch = char::from_u32(code).unwrap_or('\u{FFFD}');
        let mut buf = [0u8; 4];
        self.output.extend_from_slice(ch.encode_utf8(&mut buf).as_bytes());
    }
    fn mark_adopted(&mut self) {
        self.adopted += 1;
        if self.adopted_at.is_none() {
            self.adopted_at = Some(self.output.len());
        }
    }
}

/// Result of one fetch/execute cycle.
#[derive(Clone, Debug, PartialEq, Eq)]
pub struct Step {
    /// The instruction that was fetched (address, word), if any. An instruction that stops the
    /// machine from inside (unknown trap, disabled opcode, exhausted input, RTI) is fetched too.
    pub fetched: Option<(u16, u16)>,
    pub stop: Option<Stop>,
}

pub fn sext(value: u16, bits: u32) -> u16 {
    let shift = 16 - bits;
    (((value << shift) as i16) >> shift) as u16
}

impl Vm {
    /// Load `words` (origin first) as the loader specifies.
    pub fn load(words: &[u16], stack_enabled: bool, minimal: bool) -> Result<Vm, LoadError> {
        if words.is_empty() {
            return Err(LoadError::Empty);
        }
        let orig = words[0] as usize;
        let body = &words[1..];
        // The implicit HALT after the last word must fit too
        if orig + body.len() + 1 > 0x10000 {
            return Err(LoadError::TooLong);
        }
        let mut mem = new_mem();
        mem[orig..orig + body.len()].copy_from_slice(body);
        mem[orig + body.len()] = HALT_WORD;
        Ok(Vm {
            mem,
            reg: [0, 0, 0, 0, 0, 0, 0, USER_END - 1],
            pc: orig as u16,
            cc: 0,
            orig: orig as u16,
            stack_enabled,
            minimal,
        })
    }

    pub fn from_state(mem: &[u16; 0x10000], reg: [u16; 8], pc: u16, cc: u8, orig: u16, stack_enabled: bool, minimal: bool) -> Vm {
        let mut m = new_mem();
        m.copy_from_slice(mem);
        Vm {
            mem: m,
            reg,
            pc,
            cc,
            orig,
            stack_enabled,
            minimal,
        }
    }

    pub fn in_user_space(&self, addr: u16) -> bool {
        addr >= self.orig && addr < USER_END
    }

    /// Why the machine would not fetch at the current PC, if so.
    pub fn fetch_stop(&self) -> Option<Stop> {
        if self.pc == HALT_PC {
            Some(Stop::Normal)
        } else if self.pc < self.orig {
            Some(Stop::BelowOrigin)
        } else if self.pc >= USER_END {
            Some(Stop::AboveUser)
        } else {
            None
        }
    }

    fn set_cc(&mut self, value: u16) {
        self.cc = if value & 0x8000 != 0 {
            0b100
        } else if value == 0 {
            0b010
        } else {
            0b001
        };
    }

    /// One iteration of the fetch/execute cycle.
    pub fn step(&mut self, io: &mut Io) -> Step {
        if let Some(stop) = self.fetch_stop() {
            return Step {
                fetched: None,
                stop: Some(stop),
            };
        }
        let pc = self.pc;
        let instr = self.mem[pc as usize];
        self.pc = pc.wrapping_add(1);
        let stop = self.execute(instr, io);
        Step {
            fetched: Some((pc, instr)),
            stop,
        }
    }

    /// Execute `instr` with PC already pointing past it. Returns a stop if the instruction
    /// ends the run instead of executing.
    pub fn execute(&mut self, instr: u16, io: &mut Io) -> Option<Stop> {
        let op = instr >> 12;
        let dr = ((instr >> 9) & 7) as usize;
        let sr1 = ((instr >> 6) & 7) as usize;
        match op {
            0x0 => {
                // BR
                let nzp = ((instr >> 9) & 7) as u8;
                if nzp & self.cc != 0 {
                    self.pc = self.pc.wrapping_add(sext(instr & 0x1FF, 9));
                }
            }
            0x1 | 0x5 => {
                // ADD / AND
                let a = self.reg[sr1];
                let b = if instr & 0x20 != 0 {
                    sext(instr & 0x1F, 5)
                } else {
                    self.reg[(instr & 7) as usize]
                };
                let r = if op == 0x1 { a.wrapping_add(b) } else { a & b };
                self.reg[dr] = r;
                self.set_cc(r);
            }
            0x2 => {
                // LD
                let addr = self.pc.wrapping_add(sext(instr & 0x1FF, 9));
                let v = self.mem[addr as usize];
                self.reg[dr] = v;
                self.set_cc(v);
            }
            0x3 => {
                // ST
                let addr = self.pc.wrapping_add(sext(instr & 0x1FF, 9));
                self.mem[addr as usize] = self.reg[dr];
            }
            0x4 => {
                // JSR / JSRR. Link first, then jump (2nd-edition ISA wording); the editions
                // differ only for `JSRR R7`, which no generator emits.
                self.reg[7] = self.pc;
                if instr & 0x800 != 0 {
                    self.pc = self.pc.wrapping_add(sext(instr & 0x7FF, 11));
                } else {
                    self.pc = self.reg[sr1];
                }
            }
            0x6 => {
                // LDR
                let addr = self.reg[sr1].wrapping_add(sext(instr & 0x3F, 6));
                let v = self.mem[addr as usize];
                self.reg[dr] = v;
                self.set_cc(v);
            }
            0x7 => {
                // STR
                let addr = self.reg[sr1].wrapping_add(sext(instr & 0x3F, 6));
                self.mem[addr as usize] = self.reg[dr];
            }
            0x8 => return Some(Stop::Rti),
            0x9 => {
                // NOT
                let v = !self.reg[sr1];
                self.reg[dr] = v;
                self.set_cc(v);
            }
            0xA => {
                // LDI
                let ptr = self.mem[self.pc.wrapping_add(sext(instr & 0x1FF, 9)) as usize];
                let v = self.mem[ptr as usize];
                self.reg[dr] = v;
                self.set_cc(v);
            }
            0xB => {
                // STI
                let ptr = self.mem[self.pc.wrapping_add(sext(instr & 0x1FF, 9)) as usize];
                self.mem[ptr as usize] = self.reg[dr];
            }
            0xC => {
                // JMP / RET
                self.pc = self.reg[sr1];
            }
            0xD => {
                if !self.stack_enabled {
                    return Some(Stop::StackDisabled);
                }
                let subroutine = instr & 0x0800 != 0;
                let push_like = instr & 0x0400 != 0;
                match (subroutine, push_like) {
                    (true, true) => {
                        // CALL: push the return address, jump PC-relative (10 bits)
                        let ret = self.pc;
                        self.push(ret);
                        self.pc = self.pc.wrapping_add(sext(instr & 0x3FF, 10));
                    }
                    (true, false) => {
                        // RETS
                        self.pc = self.pop();
                    }
                    (false, true) => {
                        // PUSH
                        let v = self.reg[sr1];
                        self.push(v);
                    }
                    (false, false) => {
                        // POP
                        let v = self.pop();
                        self.reg[sr1] = v;
                    }
                }
            }
            0xE => {
                // LEA (this dialect sets the condition codes, as the 2nd-edition ISA does)
                let v = self.pc.wrapping_add(sext(instr & 0x1FF, 9));
                self.reg[dr] = v;
                self.set_cc(v);
            }
            0xF => return self.trap((instr & 0xFF) as u8, io),
            _ => unreachable!(),
        }
        None
    }

    fn push(&mut self, value: u16) {
        self.reg[7] = self.reg[7].wrapping_sub(1);
        self.mem[self.reg[7] as usize] = value;
    }

    fn pop(&mut self) -> u16 {
        let v = self.mem[self.reg[7] as usize];
        self.reg[7] = self.reg[7].wrapping_add(1);
        v
    }

    fn read_input(&mut self, io: &mut Io) -> Result<u32, Stop> {
        io.input_requests += 1;
        if io.input_pos >= io.input.len() {
            return Err(Stop::InputEof);
        }
        let byte = io.input[io.input_pos];
        io.input_pos += 1;
        if byte.is_ascii() {
            Ok(byte as u32)
        } else {
            // Documented in the source: non-ASCII input is replaced by the marker U+FFFD
            Ok(0xFFFD)
        }
    }

    fn trap(&mut self, vect: u8, io: &mut Io) -> Option<Stop> {
        let minimal = self.minimal;
        match vect {
            0x20 => match self.read_input(io) {
                Ok(code) => self.reg[0] = code as u16,
                Err(stop) => return Some(stop),
            },
            0x21 => io.put_char((self.reg[0] & 0xFF) as u32, minimal),
            0x22 => {
                let mut addr = self.reg[0];
                loop {
                    let word = self.mem[addr as usize];
                    if word & 0xFF == 0 {
                        if word != 0 {
                            // Terminator per ISA is x0000; a zero low byte under a non-zero high
                            // byte is not covered by the documentation
                            io.mark_adopted();
                        }
                        break;
                    }
                    if word > 0xFF {
                        io.mark_adopted();
                    }
                    io.put_char((word & 0xFF) as u32, minimal);
                    addr = addr.wrapping_add(1);
                    if addr == self.reg[0] {
                        break; // all of memory is non-zero: never happens with a HALT sentinel
                    }
                }
            }
            0x23 => match self.read_input(io) {
                Ok(code) => {
                    self.reg[0] = code as u16;
                    io.put_char(code, minimal);
                }
                Err(stop) => return Some(stop),
            },
            0x24 => {
                // PUTSP: bits [7:0] first, then bits [15:8]; ends at a x00 character
                let mut addr = self.reg[0];
                'string: loop {
                    let word = self.mem[addr as usize];
                    for ch in [word & 0xFF, word >> 8] {
                        if ch == 0 {
                            break 'string;
                        }
                        io.put_char(ch as u32, minimal);
                    }
                    addr = addr.wrapping_add(1);
                    if addr == self.reg[0] {
                        break;
                    }
                }
            }
            0x25 => {
                self.pc = HALT_PC;
                io.output.extend_from_slice(HALT_BANNER);
            }
            0x26 => {
                let text = format!("{}", self.reg[0] as i16);
                io.output.extend_from_slice(text.as_bytes());
            }
            0x27 => {
                if !self.minimal {
                    // The fancy table of non-minimal mode is decoration, not specified
                    io.mark_adopted();
                } else {
                    for i in 0..8 {
                        io.output
                            .extend_from_slice(format!("R{} x{:04x}\n", i, self.reg[i]).as_bytes());
                    }
                    io.output
                        .extend_from_slice(format!("PC x{:04x}\n", self.pc).as_bytes());
                    io.output
                        .extend_from_slice(format!("CC {:03b}\n", self.cc).as_bytes());
                }
            }
            other => return Some(Stop::UnknownTrap(other)),
        }
        None
    }

    /// Run until the machine stops or `max_steps` instructions have executed.
    /// Returns the stop (None = budget exhausted) and the executed (pc, instr) trace.
    pub fn run(&mut self, io: &mut Io, max_steps: u64, trace: Option<&mut Vec<(u16, u16)>>) -> (Option<Stop>, u64) {
        let mut n = 0u64;
        let mut trace = trace;
        loop {
            if n >= max_steps {
                // Report a pending stop that costs no instruction
                if let Some(stop) = self.fetch_stop() {
                    return (Some(stop), n);
                }
                return (None, n);
            }
            let step = self.step(io);
            if let Some(fetched) = step.fetched {
                n += 1;
                if let Some(t) = trace.as_deref_mut() {
                    t.push(fetched);
                }
            }
            if let Some(stop) = step.stop {
                return (Some(stop), n);
            }
        }
    }
}

pub fn is_halt(word: u16) -> bool {
    word >> 12 == 0xF && word & 0xFF == 0x25
}

/// JSR, JSRR or CALL.
pub fn is_call(word: u16, stack_enabled: bool) -> bool {
    match word >> 12 {
        0x4 => true,
        0xD => stack_enabled && (word >> 10) & 3 == 3,
        _ => false,
    }
}

/// RET (`JMP R7`) or RETS.
pub fn is_return(word: u16) -> bool {
    match word >> 12 {
        0xC => (word >> 6) & 7 == 7,
        0xD => (word >> 10) & 3 == 2,
        _ => false,
    }
}
