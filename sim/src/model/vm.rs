//! RefVm: reference LC-3 machine with the documented PUSH/POP/CALL/RETS extension.
//!
//! Written from the LC-3 ISA tables, lace's README and the instruction-format comment in
//! `air.rs`; shares no code with lace. All arithmetic wraps modulo 2^16.

pub const USER_END: u16 = 0xFE00;
pub const HALT_PC: u16 = 0xFFFF;
pub const HALT_WORD: u16 = 0xF025;
/// What the HALT routine prints (decorative banner, fixed by the repository's own tests).
pub const HALT_BANNER: &[u8] = b"\n      Halted\n";

/// What the HALT trap prints on the tree under test (C03 lists OUT, PUTS, PUTSP, PUTN and REG as
/// specified output; the wording of the HALT message is the tool's own business): learned from
/// one run of a HALT-only program, `HALT_BANNER` until then.
pub static HALT_TEXT: std::sync::OnceLock<Vec<u8>> = std::sync::OnceLock::new();

pub type Mem = Box<[u16; 0x10000]>;

pub fn new_mem() -> Mem {
    vec![0u16; 0x10000].into_boxed_slice().try_into().unwrap()
}

#[derive(Clone)]
pub struct Vm {
    pub mem: Mem,
    pub reg: [u16; 8],
    pub pc: u16,
    /// 3-bit NZP, 0 = none set.
    pub cc: u8,
    pub orig: u16,
    pub stack_enabled: bool,
    pub minimal: bool,
    /// PUTS ends at a word that is x0000 (the ISA's wording) instead of at a word whose low
    /// byte is zero (lace's reading). The two only differ on a word like x4100.
    pub puts_whole_word: bool,
}

#[derive(Clone, Debug, PartialEq, Eq)]
pub enum Stop {
    /// PC is 0xFFFF (HALT executed earlier, or a jump there): normal end, status 0.
    Normal,
    /// PC below the origin: exception, status 0xEE.
    BelowOrigin,
    /// PC at or above 0xFE00 (and not 0xFFFF): exception, status 0xEE.
    AboveUser,
    /// Unknown trap vector: exception, status 0xEE.
    UnknownTrap(u8),
    /// Opcode 0xD with the stack feature off: status 1.
    StackDisabled,
    /// GETC/IN with the input exhausted: status 1.
    InputEof,
    /// RTI: documented as unimplemented; outside every claim.
    Rti,
}

impl Stop {
    pub fn status(&self) -> Option<i32> {
        match self {
            Stop::Normal => Some(0),
            Stop::BelowOrigin | Stop::AboveUser | Stop::UnknownTrap(_) => Some(0xEE),
            Stop::StackDisabled | Stop::InputEof => Some(1),
            Stop::Rti => None,
        }
    }
}

#[derive(Clone, Debug, PartialEq, Eq)]
pub enum LoadError {
    Empty,
    TooLong,
}

/// Input and output streams of the machine.
#[derive(Clone, Debug, Default)]
pub struct Io {
    pub input: Vec<u8>,
    pub input_pos: usize,
    pub output: Vec<u8>,
    /// Offsets in `output` from which the expected text is not fully determined by the
    /// documentation (see `adopted`): comparison of this run's output stops at the first one.
    pub adopted_at: Option<usize>,
    pub adopted: u64,
    /// Offset in `output` of the first PUTS terminator on which the two readings differ.
    pub puts_ambiguous_at: Option<usize>,
    /// Zero-width places in `output` where a register table in decorated (non-minimal) form is
    /// printed: its layout is not specified, its contents are (the values, in this order).
    pub tables: Vec<(usize, Vec<String>)>,
    /// Number of GETC/IN executions (including the one that found the input exhausted).
    pub input_requests: u64,
}

impl Io {
    pub fn with_input(input: &[u8]) -> Io {
        Io {
            input: input.to_vec(),
            ..Default::default()
        }
    }
    fn put_char(&mut self, code: u32, minimal: bool) {
        // Characters are Unicode scalar values U+0000..U+00FF (or U+FFFD), UTF-8 on the wire.
        // In minimal mode the output layer strips ANSI escapes per printed item: a lone ESC.
        if minimal && code == 0x1b {
            return;
        }
        let ch = char::from_u32(code).unwrap_or('\u{FFFD}');
        let mut buf = [0u8; 4];
        self.output.extend_from_slice(ch.encode_utf8(&mut buf).as_bytes());
    }
    /// First offset of `output` from which the expected text is not a single determined string.
    pub fn unspecified_at(&self) -> Option<usize> {
        [self.adopted_at, self.puts_ambiguous_at, self.tables.first().map(|t| t.0)]
            .into_iter()
            .flatten()
            .min()
    }

    /// Does `got` agree with the expected output? Register tables match any text that holds
    /// their values in order; from `adopted_at` on nothing is compared. `Err`: how far `got`
    /// agreed.
    pub fn output_matches(&self, got: &[u8]) -> Result<(), Mismatch> {
        let limit = self.adopted_at.unwrap_or(usize::MAX).min(self.output.len());
        let prefix_only = self.adopted_at.is_some();
        let tables: Vec<&(usize, Vec<String>)> = self.tables.iter().filter(|t| t.0 <= limit).collect();
        let mut furthest = Mismatch::default();
        if match_from(&self.output[..limit], &tables, got, prefix_only, &mut furthest) {
            Ok(())
        } else {
            Err(furthest)
        }
    }

    fn mark_adopted(&mut self) {
        self.adopted += 1;
        if self.adopted_at.is_none() {
            self.adopted_at = Some(self.output.len());
        }
    }
}

/// How far an output agreed with the expected one.
#[derive(Clone, Copy, Debug, Default)]
pub struct Mismatch {
    /// Offset in the real output.
    pub got_at: usize,
    /// Offset in the expected output.
    pub exp_at: usize,
    /// The disagreement is inside a register table.
    pub in_table: bool,
}

/// End of the shortest prefix of `text` that holds `tokens` in order (ASCII case-insensitive).
fn tokens_end(text: &[u8], tokens: &[String]) -> Option<usize> {
    let mut at = 0usize;
    for token in tokens {
        let t = token.as_bytes();
        let found = (at..=text.len().saturating_sub(t.len())).find(|i| text.len() >= t.len() && text[*i..*i + t.len()].eq_ignore_ascii_case(t))?;
        at = found + t.len();
    }
    Some(at)
}

/// A line of decoration: no ASCII letter or digit outside ANSI escape sequences.
fn is_border_line(line: &[u8]) -> bool {
    let mut i = 0;
    while i < line.len() {
        if line[i] == 0x1b && line.get(i + 1) == Some(&b'[') {
            i += 2;
            while i < line.len() && !line[i].is_ascii_alphabetic() {
                i += 1;
            }
            i += 1;
            continue;
        }
        if line[i].is_ascii_alphanumeric() {
            return false;
        }
        i += 1;
    }
    true
}

/// What one step of the search found at (table index, offset in the real output).
enum Expansion {
    /// Decided here: the rest matches / cannot match.
    Done(bool),
    /// The literal part matched and the table was found: offsets where the table may end.
    Ends(Vec<usize>),
}

/// The expected output with the tables from `ti` on against `got[gi..]`: a depth-first search
/// over the places where each table may end, with an explicit stack (a program that prints
/// its registers in a loop has thousands of tables) and a memo of the states that failed.
fn match_from(exp: &[u8], tables: &[&(usize, Vec<String>)], got: &[u8], prefix_only: bool, furthest: &mut Mismatch) -> bool {
    struct Frame {
        ti: usize,
        gi: usize,
        ends: Vec<usize>,
        next: usize,
    }
    let mut failed: std::collections::HashSet<(usize, usize)> = std::collections::HashSet::new();
    let mut stack: Vec<Frame> = Vec::new();
    let mut pending = Some((0usize, 0usize));
    loop {
        if let Some((ti, gi)) = pending.take() {
            if !failed.contains(&(ti, gi)) {
                match match_here(exp, tables, ti, got, gi, prefix_only, furthest) {
                    Expansion::Done(true) => return true,
                    Expansion::Done(false) => {
                        failed.insert((ti, gi));
                    }
                    Expansion::Ends(ends) => stack.push(Frame { ti, gi, ends, next: 0 }),
                }
            }
        }
        // The next candidate of the innermost table that has one left
        loop {
            let Some(top) = stack.last_mut() else {
                return false;
            };
            if top.next < top.ends.len() {
                let end = top.ends[top.next];
                top.next += 1;
                pending = Some((top.ti + 1, end));
                break;
            }
            failed.insert((top.ti, top.gi));
            stack.pop();
        }
    }
}

/// A decorated table is at most this long.
const TABLE_WINDOW: usize = 8192;

fn match_here(exp: &[u8], tables: &[&(usize, Vec<String>)], ti: usize, got: &[u8], gi: usize, prefix_only: bool, furthest: &mut Mismatch) -> Expansion {
    // Literal part from the end of the previous table up to the next table (or the end)
    let ei = if ti == 0 { 0 } else { tables[ti - 1].0 };
    let lit_end = tables.get(ti).map(|t| t.0).unwrap_or(exp.len());
    let lit = &exp[ei..lit_end];
    let agree = lit.iter().zip(got[gi.min(got.len())..].iter()).take_while(|(a, b)| a == b).count();
    if gi + agree >= furthest.got_at {
        *furthest = Mismatch {
            got_at: gi + agree,
            exp_at: ei + agree,
            in_table: agree == lit.len() && tables.get(ti).is_some(),
        };
    }
    if agree < lit.len() {
        return Expansion::Done(false);
    }
    let gi = gi + lit.len();
    let Some(table) = tables.get(ti) else {
        return Expansion::Done(prefix_only || gi == got.len());
    };
    // The table: any text holding the values in order, followed by the rest
    let window = &got[gi..got.len().min(gi + TABLE_WINDOW)];
    let Some(min_end) = tokens_end(window, &table.1) else {
        return Expansion::Done(false);
    };
    if gi + min_end > furthest.got_at {
        *furthest = Mismatch {
            got_at: gi + min_end,
            exp_at: lit_end,
            in_table: false,
        };
    }
    // Where the table may end: anywhere on the rest of the line that holds its last value, or
    // after one of the few border lines (no letters or digits outside escape sequences) below it
    let mut ends: Vec<usize> = Vec::new();
    let mut at = min_end;
    loop {
        ends.push(gi + at);
        if at >= window.len() || at - min_end > 256 {
            break;
        }
        at += 1;
        if window[at - 1] == b'\n' {
            ends.push(gi + at);
            break;
        }
    }
    for _ in 0..4 {
        let Some(len) = window[at.min(window.len())..].iter().position(|b| *b == b'\n') else {
            break;
        };
        if !is_border_line(&window[at..at + len]) {
            break;
        }
        at += len + 1;
        ends.push(gi + at);
    }
    // Cheap test first: the byte that must follow the table
    let next_byte = exp.get(lit_end).copied().filter(|_| tables.get(ti + 1).map(|t| t.0 > lit_end).unwrap_or(true));
    ends.dedup();
    if let Some(b) = next_byte {
        ends.retain(|end| got.get(*end) == Some(&b));
    }
    Expansion::Ends(ends)
}

/// Result of one fetch/execute cycle.
#[derive(Clone, Debug, PartialEq, Eq)]
pub struct Step {
    /// The instruction that was fetched (address, word), if any. An instruction that stops the
    /// machine from inside (unknown trap, disabled opcode, exhausted input, RTI) is fetched too.
    pub fetched: Option<(u16, u16)>,
    pub stop: Option<Stop>,
}

pub fn sext(value: u16, bits: u32) -> u16 {
    let shift = 16 - bits;
    (((value << shift) as i16) >> shift) as u16
}

impl Vm {
    /// Load `words` (origin first) as the loader specifies.
    pub fn load(words: &[u16], stack_enabled: bool, minimal: bool) -> Result<Vm, LoadError> {
        if words.is_empty() {
            return Err(LoadError::Empty);
        }
        let orig = words[0] as usize;
        let body = &words[1..];
        // The implicit HALT after the last word must fit too
        if orig + body.len() + 1 > 0x10000 {
            return Err(LoadError::TooLong);
        }
        let mut mem = new_mem();
        mem[orig..orig + body.len()].copy_from_slice(body);
        mem[orig + body.len()] = HALT_WORD;
        Ok(Vm {
            mem,
            reg: [0, 0, 0, 0, 0, 0, 0, USER_END - 1],
            pc: orig as u16,
            cc: 0,
            orig: orig as u16,
            stack_enabled,
            minimal,
            puts_whole_word: false,
        })
    }

    pub fn from_state(mem: &[u16; 0x10000], reg: [u16; 8], pc: u16, cc: u8, orig: u16, stack_enabled: bool, minimal: bool) -> Vm {
        let mut m = new_mem();
        m.copy_from_slice(mem);
        Vm {
            mem: m,
            reg,
            pc,
            cc,
            orig,
            stack_enabled,
            minimal,
            puts_whole_word: false,
        }
    }

    pub fn in_user_space(&self, addr: u16) -> bool {
        addr >= self.orig && addr < USER_END
    }

    /// Why the machine would not fetch at the current PC, if so.
    pub fn fetch_stop(&self) -> Option<Stop> {
        if self.pc == HALT_PC {
            Some(Stop::Normal)
        } else if self.pc < self.orig {
            Some(Stop::BelowOrigin)
        } else if self.pc >= USER_END {
            Some(Stop::AboveUser)
        } else {
            None
        }
    }

    fn set_cc(&mut self, value: u16) {
        self.cc = if value & 0x8000 != 0 {
            0b100
        } else if value == 0 {
            0b010
        } else {
            0b001
        };
    }

    /// One iteration of the fetch/execute cycle.
    pub fn step(&mut self, io: &mut Io) -> Step {
        if let Some(stop) = self.fetch_stop() {
            return Step {
                fetched: None,
                stop: Some(stop),
            };
        }
        let pc = self.pc;
        let instr = self.mem[pc as usize];
        self.pc = pc.wrapping_add(1);
        let stop = self.execute(instr, io);
        Step {
            fetched: Some((pc, instr)),
            stop,
        }
    }

    /// Execute `instr` with PC already pointing past it. Returns a stop if the instruction
    /// ends the run instead of executing.
    pub fn execute(&mut self, instr: u16, io: &mut Io) -> Option<Stop> {
        let op = instr >> 12;
        let dr = ((instr >> 9) & 7) as usize;
        let sr1 = ((instr >> 6) & 7) as usize;
        match op {
            0x0 => {
                // BR
                let nzp = ((instr >> 9) & 7) as u8;
                if nzp & self.cc != 0 {
                    self.pc = self.pc.wrapping_add(sext(instr & 0x1FF, 9));
                }
            }
            0x1 | 0x5 => {
                // ADD / AND
                let a = self.reg[sr1];
                let b = if instr & 0x20 != 0 {
                    sext(instr & 0x1F, 5)
                } else {
                    self.reg[(instr & 7) as usize]
                };
                let r = if op == 0x1 { a.wrapping_add(b) } else { a & b };
                self.reg[dr] = r;
                self.set_cc(r);
            }
            0x2 => {
                // LD
                let addr = self.pc.wrapping_add(sext(instr & 0x1FF, 9));
                let v = self.mem[addr as usize];
                self.reg[dr] = v;
                self.set_cc(v);
            }
            0x3 => {
                // ST
                let addr = self.pc.wrapping_add(sext(instr & 0x1FF, 9));
                self.mem[addr as usize] = self.reg[dr];
            }
            0x4 => {
                // JSR / JSRR. Link first, then jump (2nd-edition ISA wording); the editions
                // differ only for `JSRR R7`, which no generator emits.
                self.reg[7] = self.pc;
                if instr & 0x800 != 0 {
                    self.pc = self.pc.wrapping_add(sext(instr & 0x7FF, 11));
                } else {
                    self.pc = self.reg[sr1];
                }
            }
            0x6 => {
                // LDR
                let addr = self.reg[sr1].wrapping_add(sext(instr & 0x3F, 6));
                let v = self.mem[addr as usize];
                self.reg[dr] = v;
                self.set_cc(v);
            }
            0x7 => {
                // STR
                let addr = self.reg[sr1].wrapping_add(sext(instr & 0x3F, 6));
                self.mem[addr as usize] = self.reg[dr];
            }
            0x8 => return Some(Stop::Rti),
            0x9 => {
                // NOT
                let v = !self.reg[sr1];
                self.reg[dr] = v;
                self.set_cc(v);
            }
            0xA => {
                // LDI
                let ptr = self.mem[self.pc.wrapping_add(sext(instr & 0x1FF, 9)) as usize];
                let v = self.mem[ptr as usize];
                self.reg[dr] = v;
                self.set_cc(v);
            }
            0xB => {
                // STI
                let ptr = self.mem[self.pc.wrapping_add(sext(instr & 0x1FF, 9)) as usize];
                self.mem[ptr as usize] = self.reg[dr];
            }
            0xC => {
                // JMP / RET
                self.pc = self.reg[sr1];
            }
            0xD => {
                if !self.stack_enabled {
                    return Some(Stop::StackDisabled);
                }
                let subroutine = instr & 0x0800 != 0;
                let push_like = instr & 0x0400 != 0;
                match (subroutine, push_like) {
                    (true, true) => {
                        // CALL: push the return address, jump PC-relative (10 bits)
                        let ret = self.pc;
                        self.push(ret);
                        self.pc = self.pc.wrapping_add(sext(instr & 0x3FF, 10));
                    }
                    (true, false) => {
                        // RETS
                        self.pc = self.pop();
                    }
                    (false, true) => {
                        // PUSH
                        let v = self.reg[sr1];
                        self.push(v);
                    }
                    (false, false) => {
                        // POP
                        let v = self.pop();
                        self.reg[sr1] = v;
                    }
                }
            }
            0xE => {
                // LEA (this dialect sets the condition codes, as the 2nd-edition ISA does)
                let v = self.pc.wrapping_add(sext(instr & 0x1FF, 9));
                self.reg[dr] = v;
                self.set_cc(v);
            }
            0xF => return self.trap((instr & 0xFF) as u8, io),
            _ => unreachable!(),
        }
        None
    }

    fn push(&mut self, value: u16) {
        self.reg[7] = self.reg[7].wrapping_sub(1);
        self.mem[self.reg[7] as usize] = value;
    }

    fn pop(&mut self) -> u16 {
        let v = self.mem[self.reg[7] as usize];
        self.reg[7] = self.reg[7].wrapping_add(1);
        v
    }

    fn read_input(&mut self, io: &mut Io) -> Result<u32, Stop> {
        io.input_requests += 1;
        if io.input_pos >= io.input.len() {
            return Err(Stop::InputEof);
        }
        let byte = io.input[io.input_pos];
        io.input_pos += 1;
        if byte.is_ascii() {
            Ok(byte as u32)
        } else {
            // Documented in the source: non-ASCII input is replaced by the marker U+FFFD
            Ok(0xFFFD)
        }
    }

    fn trap(&mut self, vect: u8, io: &mut Io) -> Option<Stop> {
        let minimal = self.minimal;
        match vect {
            0x20 => match self.read_input(io) {
                Ok(code) => self.reg[0] = code as u16,
                Err(stop) => return Some(stop),
            },
            0x21 => io.put_char((self.reg[0] & 0xFF) as u32, minimal),
            0x22 => {
                let mut addr = self.reg[0];
                loop {
                    let word = self.mem[addr as usize];
                    if word & 0xFF == 0 {
                        if word != 0 {
                            // Terminator per ISA is x0000, lace ends the string at a zero low
                            // byte: both readings are accepted, each as a whole
                            if io.puts_ambiguous_at.is_none() {
                                io.puts_ambiguous_at = Some(io.output.len());
                            }
                        }
                        if word == 0 || !self.puts_whole_word {
                            break;
                        }
                    } else if word > 0xFF {
                        io.mark_adopted();
                    }
                    io.put_char((word & 0xFF) as u32, minimal);
                    addr = addr.wrapping_add(1);
                    if addr == self.reg[0] {
                        break; // all of memory is non-zero: never happens with a HALT sentinel
                    }
                }
            }
            0x23 => match self.read_input(io) {
                Ok(code) => {
                    self.reg[0] = code as u16;
                    io.put_char(code, minimal);
                }
                Err(stop) => return Some(stop),
            },
            0x24 => {
                // PUTSP: bits [7:0] first, then bits [15:8]; ends at a x00 character
                let mut addr = self.reg[0];
                'string: loop {
                    let word = self.mem[addr as usize];
                    for ch in [word & 0xFF, word >> 8] {
                        if ch == 0 {
                            break 'string;
                        }
                        io.put_char(ch as u32, minimal);
                    }
                    addr = addr.wrapping_add(1);
                    if addr == self.reg[0] {
                        break;
                    }
                }
            }
            0x25 => {
                self.pc = HALT_PC;
                io.output.extend_from_slice(HALT_TEXT.get().map(|t| &t[..]).unwrap_or(HALT_BANNER));
            }
            0x26 => {
                let text = format!("{}", self.reg[0] as i16);
                io.output.extend_from_slice(text.as_bytes());
            }
            0x27 => {
                // The layout of the register dump is the tool's business in either output mode
                // (a table, or `R0 x0000` lines); the values it shows, in this order, are not
                let mut values: Vec<String> = (0..8).map(|i| format!("{:04x}", self.reg[i])).collect();
                values.push(format!("{:04x}", self.pc));
                values.push(format!("{:03b}", self.cc));
                io.tables.push((io.output.len(), values));
            }
            other => return Some(Stop::UnknownTrap(other)),
        }
        None
    }

    /// Run until the machine stops or `max_steps` instructions have executed.
    /// Returns the stop (None = budget exhausted) and the executed (pc, instr) trace.
    pub fn run(&mut self, io: &mut Io, max_steps: u64, trace: Option<&mut Vec<(u16, u16)>>) -> (Option<Stop>, u64) {
        let mut n = 0u64;
        let mut trace = trace;
        loop {
            if n >= max_steps {
                // Report a pending stop that costs no instruction
                if let Some(stop) = self.fetch_stop() {
                    return (Some(stop), n);
                }
                return (None, n);
            }
            let step = self.step(io);
            if let Some(fetched) = step.fetched {
                n += 1;
                if let Some(t) = trace.as_deref_mut() {
                    t.push(fetched);
                }
            }
            if let Some(stop) = step.stop {
                return (Some(stop), n);
            }
        }
    }
}

pub fn is_halt(word: u16) -> bool {
    word >> 12 == 0xF && word & 0xFF == 0x25
}

/// JSR, JSRR or CALL.
pub fn is_call(word: u16, stack_enabled: bool) -> bool {
    match word >> 12 {
        0x4 => true,
        0xD => stack_enabled && (word >> 10) & 3 == 3,
        _ => false,
    }
}

/// RET (`JMP R7`) or RETS.
pub fn is_return(word: u16) -> bool {
    match word >> 12 {
        0xC => (word >> 6) & 7 == 7,
        0xD => (word >> 10) & 3 == 2,
        _ => false,
    }
}

#[cfg(test)]
mod matcher_tests {
    //! The explicit-stack search must decide exactly what the recursive formulation it replaced
    //! decided (kept here as the reference), and must not be limited by the thread's stack.
    use super::*;

    /// `exp[ei..]` with the tables from `ti` on against `got[gi..]`.
    #[allow(clippy::too_many_arguments)]
    fn old_match_from(
        exp: &[u8],
        tables: &[&(usize, Vec<String>)],
        ti: usize,
        ei: usize,
        got: &[u8],
        gi: usize,
        prefix_only: bool,
        furthest: &mut Mismatch,
        failed: &mut std::collections::HashSet<(usize, usize)>,
    ) -> bool {
        if failed.contains(&(ti, gi)) {
            return false;
        }
        let ok = old_match_here(exp, tables, ti, ei, got, gi, prefix_only, furthest, failed);
        if !ok {
            failed.insert((ti, gi));
        }
        ok
    }


    #[allow(clippy::too_many_arguments)]
    fn old_match_here(
        exp: &[u8],
        tables: &[&(usize, Vec<String>)],
        ti: usize,
        ei: usize,
        got: &[u8],
        gi: usize,
        prefix_only: bool,
        furthest: &mut Mismatch,
        failed: &mut std::collections::HashSet<(usize, usize)>,
    ) -> bool {
        // Literal part up to the next table (or the end)
        let lit_end = tables.get(ti).map(|t| t.0).unwrap_or(exp.len());
        let lit = &exp[ei..lit_end];
        let agree = lit.iter().zip(got[gi.min(got.len())..].iter()).take_while(|(a, b)| a == b).count();
        if gi + agree >= furthest.got_at {
            *furthest = Mismatch {
                got_at: gi + agree,
                exp_at: ei + agree,
                in_table: agree == lit.len() && tables.get(ti).is_some(),
            };
        }
        if agree < lit.len() {
            return false;
        }
        let gi = gi + lit.len();
        let Some(table) = tables.get(ti) else {
            return prefix_only || gi == got.len();
        };
        // The table: any text holding the values in order, followed by the rest
        let window = &got[gi..got.len().min(gi + TABLE_WINDOW)];
        let Some(min_end) = tokens_end(window, &table.1) else {
            return false;
        };
        if gi + min_end > furthest.got_at {
            *furthest = Mismatch {
                got_at: gi + min_end,
                exp_at: lit_end,
                in_table: false,
            };
        }
        // Where the table may end: anywhere on the rest of the line that holds its last value, or
        // after one of the few border lines (no letters or digits outside escape sequences) below it
        let mut ends: Vec<usize> = Vec::new();
        let mut at = min_end;
        loop {
            ends.push(gi + at);
            if at >= window.len() || at - min_end > 256 {
                break;
            }
            at += 1;
            if window[at - 1] == b'\n' {
                ends.push(gi + at);
                break;
            }
        }
        for _ in 0..4 {
            let Some(len) = window[at.min(window.len())..].iter().position(|b| *b == b'\n') else {
                break;
            };
            if !is_border_line(&window[at..at + len]) {
                break;
            }
            at += len + 1;
            ends.push(gi + at);
        }
        // Cheap test first: the byte that must follow the table
        let next_byte = exp.get(lit_end).copied().filter(|_| tables.get(ti + 1).map(|t| t.0 > lit_end).unwrap_or(true));
        ends.dedup();
        ends.into_iter().any(|end| {
            if let Some(b) = next_byte {
                if got.get(end) != Some(&b) {
                    return false;
                }
            }
            old_match_from(exp, tables, ti + 1, lit_end, got, end, prefix_only, furthest, failed)
        })
    }


    struct R(u64);
    impl R {
        fn next(&mut self) -> u64 {
            self.0 ^= self.0 << 13;
            self.0 ^= self.0 >> 7;
            self.0 ^= self.0 << 17;
            self.0
        }
        fn below(&mut self, n: u64) -> u64 {
            self.next() % n
        }
    }

    fn case(r: &mut R) -> (Vec<u8>, Vec<(usize, Vec<String>)>, Vec<u8>, bool) {
        let alphabet = b"ab1 \n";
        let mut exp: Vec<u8> = Vec::new();
        let mut got: Vec<u8> = Vec::new();
        let mut tables = Vec::new();
        for _ in 0..r.below(5) {
            for _ in 0..r.below(4) {
                let c = alphabet[r.below(alphabet.len() as u64) as usize];
                exp.push(c);
                got.push(c);
            }
            if r.below(3) > 0 {
                let tokens: Vec<String> = (0..1 + r.below(3)).map(|_| format!("{}", r.below(3))).collect();
                tables.push((exp.len(), tokens.clone()));
                for t in &tokens {
                    for _ in 0..r.below(3) {
                        got.push(b" |r=\n"[r.below(5) as usize]);
                    }
                    got.extend_from_slice(t.as_bytes());
                }
                for _ in 0..r.below(4) {
                    got.push(b" |1\n-"[r.below(5) as usize]);
                }
            }
        }
        // Damage now and then
        if r.below(3) == 0 && !got.is_empty() {
            let at = r.below(got.len() as u64) as usize;
            match r.below(3) {
                0 => got[at] = b'x',
                1 => {
                    got.remove(at);
                }
                _ => got.insert(at, b'1'),
            }
        }
        (exp, tables, got, r.below(4) == 0)
    }

    #[test]
    fn same_verdicts_as_the_recursive_search() {
        let mut r = R(0x9E3779B97F4A7C15);
        let mut accepted = 0;
        for _ in 0..200_000 {
            let (exp, tables, got, prefix_only) = case(&mut r);
            let refs: Vec<&(usize, Vec<String>)> = tables.iter().collect();
            let mut f_old = Mismatch::default();
            let mut failed = std::collections::HashSet::new();
            let old = old_match_from(&exp, &refs, 0, 0, &got, 0, prefix_only, &mut f_old, &mut failed);
            let mut f_new = Mismatch::default();
            let new = match_from(&exp, &refs, &got, prefix_only, &mut f_new);
            assert_eq!(old, new, "exp {:?} tables {:?} got {:?}", String::from_utf8_lossy(&exp), tables, String::from_utf8_lossy(&got));
            assert_eq!((f_old.got_at, f_old.exp_at, f_old.in_table), (f_new.got_at, f_new.exp_at, f_new.in_table));
            accepted += old as u32;
        }
        assert!(accepted > 20_000 && accepted < 190_000, "{}", accepted);
    }

    #[test]
    fn a_hundred_thousand_tables() {
        let mut exp: Vec<u8> = Vec::new();
        let mut got: Vec<u8> = Vec::new();
        let mut tables = Vec::new();
        for i in 0..100_000u32 {
            exp.push(b'a');
            got.push(b'a');
            tables.push((exp.len(), vec![format!("x{:04X}", i & 0xFFFF)]));
            got.extend_from_slice(format!("R0 x{:04X}\n", i & 0xFFFF).as_bytes());
        }
        let refs: Vec<&(usize, Vec<String>)> = tables.iter().collect();
        let mut f = Mismatch::default();
        assert!(match_from(&exp, &refs, &got, false, &mut f));
        got.push(b'!');
        assert!(!match_from(&exp, &refs, &got, false, &mut f));
    }
}
