pub mod dbg;
pub mod vm;
