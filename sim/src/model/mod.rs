pub mod dbg;
pub mod editor;
pub mod vm;
