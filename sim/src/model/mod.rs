pub mod vm;
