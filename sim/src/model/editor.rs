//! RefEditor: a plain line editor over `Vec<char>` with a cursor and a history list, written
//! from the doc comments of `terminal.rs` (`update_next`, history push rule, Vim word motion).

use crate::world_a::Key2;

#[derive(Clone, Debug)]
pub struct Editor {
    pub line: Vec<char>,
    pub cursor: usize,
    pub history: Vec<String>,
    /// Focused history entry; `history.len()` = the new line.
    pub index: usize,
}

fn class(c: char) -> u8 {
    if c.is_whitespace() {
        0
    } else if c.is_alphanumeric() {
        1
    } else {
        2
    }
}

/// Vim `w`: start of the next word. Second value: is the result fully determined by the
/// documentation (a next word exists)?
pub fn word_next(s: &[char], cursor: usize) -> (usize, bool) {
    let n = s.len();
    if cursor >= n {
        return (n, true);
    }
    let cls = class(s[cursor]);
    let mut j = cursor;
    if cls != 0 {
        while j < n && class(s[j]) == cls {
            j += 1;
        }
    }
    while j < n && class(s[j]) == 0 {
        j += 1;
    }
    (j, j < n)
}

/// Vim `b`: start of the word to the left of the cursor.
pub fn word_back(s: &[char], cursor: usize) -> usize {
    if cursor == 0 || s.is_empty() {
        return 0;
    }
    let mut j = cursor.min(s.len()) - 1;
    while j > 0 && class(s[j]) == 0 {
        j -= 1;
    }
    let cls = class(s[j]);
    while j > 0 && class(s[j - 1]) == cls && cls != 0 {
        j -= 1;
    }
    if cls == 0 {
        0
    } else {
        j
    }
}

impl Editor {
    pub fn new(history: Vec<String>) -> Editor {
        let index = history.len();
        Editor {
            line: Vec::new(),
            cursor: 0,
            history,
            index,
        }
    }

    pub fn current(&self) -> Vec<char> {
        if self.index >= self.history.len() {
            self.line.clone()
        } else {
            self.history[self.index].chars().collect()
        }
    }

    fn update_next(&mut self) {
        if self.index < self.history.len() {
            self.line = self.history[self.index].chars().collect();
            self.index = self.history.len();
        }
    }

    /// Start a new line (what `read_line` does before reading keys).
    pub fn begin_line(&mut self) {
        self.line.clear();
        self.cursor = 0;
    }

    /// Returns `Some(line)` when Enter submits.
    /// `adopt_word_next`: for Ctrl+Right where no next word exists, the position the real editor
    /// chose (accepted if it lies between the cursor and the end of the line).
    pub fn key(&mut self, key: &Key2, adopt_word_next: Option<usize>) -> Option<String> {
        match key {
            Key2::Enter => {
                // "EOL only occurs on Enter when the buffer is non-empty": a blank line is never
                // submitted, whether typed or recalled from a damaged history file
                let on_new = self.index >= self.history.len();
                if self.current().iter().collect::<String>().trim().is_empty() {
                    if on_new {
                        self.line.clear();
                        self.cursor = 0;
                    }
                    None
                } else {
                    self.update_next();
                    Some(self.line.iter().collect())
                }
            }
            Key2::Char(c) => {
                if (*c as u32) < 0x20 || *c as u32 == 0x7f {
                    return None;
                }
                self.update_next();
                let at = self.cursor.min(self.line.len());
                self.line.insert(at, *c);
                self.cursor = at + 1;
                None
            }
            Key2::Backspace => {
                self.update_next();
                if self.cursor > 0 && self.cursor <= self.line.len() {
                    self.cursor -= 1;
                    self.line.remove(self.cursor);
                }
                None
            }
            Key2::Delete => {
                self.update_next();
                if self.cursor < self.line.len() {
                    self.line.remove(self.cursor);
                }
                None
            }
            Key2::Left => {
                if self.cursor > 0 {
                    self.cursor -= 1;
                }
                None
            }
            Key2::Right => {
                if self.cursor < self.current().len() {
                    self.cursor += 1;
                }
                None
            }
            Key2::CtrlLeft => {
                let cur = self.current();
                self.cursor = word_back(&cur, self.cursor);
                None
            }
            Key2::CtrlRight => {
                let cur = self.current();
                let (target, determined) = word_next(&cur, self.cursor);
                self.cursor = match adopt_word_next {
                    Some(real) if !determined && real >= self.cursor && real <= cur.len() => real,
                    _ => target,
                };
                None
            }
            Key2::Up => {
                if self.index > 0 {
                    self.index -= 1;
                    self.cursor = self.current().len();
                }
                None
            }
            Key2::Down => {
                if self.index < self.history.len() {
                    self.index += 1;
                    self.cursor = self.current().len();
                }
                None
            }
        }
    }

    /// What `read_line` does after a line was submitted.
    pub fn submitted(&mut self, line: &str) {
        if self.history.last().map(|l| l.as_str()) != Some(line) {
            self.history.push(line.to_string());
        }
        self.index = self.history.len();
    }
}
