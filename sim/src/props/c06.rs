//! C06 — Object files round-trip and the loader rejects what it cannot load (world B).
//!
//! Simulated system: `lace compile` and `lace run` as two processes that communicate only
//! through a file on the simulated disk; between them the disk may tear, truncate, extend or
//! re-head the file, and reads may come back short, interrupted or failing.

use crate::capture::Capture;
use crate::engine::{Check, Report, Tier, Violation};
use crate::gen::{self, GenOpts};
use crate::json::J;
use crate::rng::{fnv, run_seed, Rng};
use crate::scn;
use crate::world_b::{assemble_words, run_lace, words_to_bytes, Proc, Run, Scratch};

pub struct C06;
const ID: &str = "C06";

/// RefLoader: an image file is loadable iff it is non-empty, of even length, and the image
/// placed at its first word plus the implicit HALT fits below 0x10000.
fn ref_loader_accepts(bytes: &[u8]) -> bool {
    if bytes.is_empty() || bytes.len() % 2 != 0 {
        return false;
    }
    let orig = u16::from_be_bytes([bytes[0], bytes[1]]) as usize;
    orig + bytes.len() / 2 <= 0x10000
}

fn has_running_line(out: &[u8]) -> bool {
    let f = crate::world_b::framing();
    let has = |marker: &Vec<u8>| out.windows(marker.len()).any(|w| w == &marker[..]);
    has(&f.before) || f.before_object.as_ref().is_some_and(has)
}

/// Program output: what is printed between the `Running` line and the `Completed` message
/// (which is glued to the output when the program does not end its last line).
fn program_output(out: &[u8]) -> Vec<u8> {
    crate::world_b::program_output(out).unwrap_or_default()
}

fn run_file(scratch: &Scratch, file: &std::path::Path, stack: bool, minimal: bool, plan: Option<String>) -> Proc {
    let mut args: Vec<std::ffi::OsString> = vec!["run".into(), file.as_os_str().to_owned()];
    if minimal {
        args.push("--minimal".into());
    }
    if stack {
        args.push("-f".into());
        args.push("stack".into());
    }
    run_lace(
        scratch,
        &Run {
            args,
            cwd: &scratch.dir,
            stdin: b"",
            plan,
            watch: Some(&scratch.dir),
            rlimit_fsize: None,
        },
    )
}

/// The object file offered as a named pipe (what `lace run <(producer)` or a link to /dev/stdin
/// amounts to): no size known in advance, the bytes arrive in pieces.
fn run_via_fifo(scratch: &Scratch, bytes: &[u8], piece: usize, stack: bool, minimal: bool) -> Option<Proc> {
    use std::io::Write;
    use std::os::unix::fs::OpenOptionsExt;
    let path = scratch.path("piped.lc3");
    let _ = std::fs::remove_file(&path);
    let c_path = std::ffi::CString::new(path.as_os_str().as_encoded_bytes()).ok()?;
    if unsafe { libc::mkfifo(c_path.as_ptr(), 0o600) } != 0 {
        return None;
    }
    let data = bytes.to_vec();
    let writer_path = path.clone();
    let writer = std::thread::spawn(move || {
        // Blocks until the other side opens the pipe for reading
        if let Ok(mut pipe) = std::fs::OpenOptions::new().write(true).open(&writer_path) {
            for chunk in data.chunks(piece.max(1)) {
                if pipe.write_all(chunk).is_err() {
                    break;
                }
                std::thread::yield_now();
            }
        }
    });
    let proc_ = run_file(scratch, &path, stack, minimal, None);
    // Should the program never have opened the pipe, let the writer go
    drop(std::fs::OpenOptions::new().read(true).custom_flags(libc::O_NONBLOCK).open(&path));
    let _ = writer.join();
    let _ = std::fs::remove_file(&path);
    Some(proc_)
}

impl Check for C06 {
    fn id(&self) -> &'static str {
        ID
    }
    fn world(&self) -> &'static str {
        "B (shipped `lace compile` and `lace run` as processes sharing a file on a simulated disk)"
    }
    fn runs(&self, tier: Tier) -> u64 {
        match tier {
            Tier::Quick => 320,
            Tier::Thorough => 40_000,
        }
    }
    fn time_cap_s(&self, tier: Tier) -> u64 {
        match tier {
            Tier::Quick => 240,
            Tier::Thorough => 1500,
        }
    }
    fn generate(&self, seed: u64, index: u64) -> J {
        let mut rng = Rng::new(run_seed(seed, ID, index));
        let stack = rng.coin();
        let minimal = rng.coin();
        let opts = GenOpts {
            stack,
            minimal,
            allow_input: false,
            allow_exception_endings: true,
            allow_breaks: rng.chance(1, 5),
            max_blocks: 1 + rng.usize_below(5),
            high_origin: rng.chance(1, 8),
            tail_beyond_user: false,
        };
        let mut program = gen::generate(&mut rng, &opts);
        if rng.chance(1, 10) && (0x3000..=0x7F00).contains(&(program.origin() as usize)) && program.n_words() < 2000 {
            // The image (with its implicit HALT) ends exactly at the top of memory, or one word
            // below: whatever runs a source and whatever loads an object file must agree there
            let origin = program.origin() as usize;
            let have = program.n_words();
            let pad = 0x10000 - origin - have - 1 - rng.usize_below(2);
            program.stmts.push(crate::gen::Stmt {
                labels: vec!["Top_pad_1".to_string()],
                text: format!(".blkw x{:X}", pad),
                words: pad,
                breaks: 0,
            });
            program.features.push("image_ends_at_top_of_memory");
        }
        // Storage faults: which re-headed images to try (origin word, number of HALT words)
        let mut reheads: Vec<J> = Vec::new();
        for _ in 0..6 {
            let n = 1 + rng.below(6) as i64;
            let target = *rng.pick(&[0xFFFFi64, 0x10000, 0x10001]);
            // origin + (n + 1 words incl. the origin word) == target
            let o = target - (n + 1);
            reheads.push(J::obj().set("orig", o.clamp(0, 0xFFFF)).set("halts", n));
        }
        for o in [0i64, 0x2FFF, 0x3000, 0xFDFF, 0xFE00, 0xFFFE, 0xFFFF] {
            reheads.push(J::obj().set("orig", o).set("halts", rng.below(3) as i64));
        }
        reheads.push(J::obj().set("orig", rng.below(0x10000) as i64).set("halts", rng.below(40) as i64));
        if index % 8 == 0 {
            // Whole-memory images: exactly filling memory from origin 0, and one word more
            reheads.push(J::obj().set("orig", 0i64).set("halts", 65535i64));
            reheads.push(J::obj().set("orig", 0i64).set("halts", 65536i64));
            reheads.push(J::obj().set("orig", 0i64).set("halts", 65600i64));
        }
        J::obj()
            .set("program", scn::program_to_json(&program))
            .set("stack", stack)
            .set("minimal", minimal)
            .set("reheads", J::Arr(reheads))
            .set("read_fault_at", 1 + rng.below(3))
            .set("dest_pre", *rng.pick(&["absent", "absent", "longer_file", "stale_tmp", "symlink"]))
    }
    fn execute(&self, _cap: &Capture, scenario: &J) -> Report {
        let mut report = Report::default();
        let Some(program) = scenario.get("program").and_then(scn::program_from_json) else {
            report.discarded = Some("bad-scenario".into());
            return report;
        };
        let stack = scenario.get_bool("stack").unwrap_or(false);
        let minimal = scenario.get_bool("minimal").unwrap_or(true);
        let source = program.render();
        let expected = match assemble_words(&source, stack) {
            Ok(w) => words_to_bytes(&w),
            Err(_) => {
                report.discarded = Some("asm-error".into());
                return report;
            }
        };
        // Only programs that the reference machine sees terminate are handed to real processes
        // (a hang costs the 20 s guard)
        {
            let words: Vec<u16> = expected.chunks_exact(2).map(|b| u16::from_be_bytes([b[0], b[1]])).collect();
            match crate::model::vm::Vm::load(&words, stack, minimal) {
                Ok(mut vm) => {
                    let mut io = crate::model::vm::Io::default();
                    let (stop, _) = vm.run(&mut io, 60_000, None);
                    if stop.is_none() || stop == Some(crate::model::vm::Stop::Rti) {
                        report.discarded = Some("reference-run-exceeds-budget".into());
                        return report;
                    }
                }
                Err(_) => {
                    report.discarded = Some("image-does-not-fit".into());
                    return report;
                }
            }
        }
        let scratch = Scratch::new("c06");
        let asm = scratch.path("p.asm");
        let obj = scratch.path("p.lc3");
        std::fs::write(&asm, &source).expect("source");
        // What already lies at the destination must not leak into the object file
        let junk: Vec<u8> = std::iter::repeat(b"OLD".iter().copied()).flatten().take(expected.len() + 600).collect();
        let dest_pre = scenario.get_str("dest_pre").unwrap_or("absent");
        match dest_pre {
            "longer_file" => std::fs::write(&obj, &junk).expect("old object"),
            "stale_tmp" => {
                // Under the plain name and under the name private to the compiling process's id
                std::fs::write(scratch.path("p.lc3.tmp"), &junk).expect("stale tmp");
                if junk.len() < 50_000 {
                    // (handed to a shell through the environment)
                    crate::world_b::STALE_FOR_PID.with(|s| *s.borrow_mut() = Some((scratch.path("p.lc3"), junk.clone())));
                }
            }
            "symlink" => {
                let target = scratch.path("real-object.bin");
                std::fs::write(&target, &junk).expect("symlink target");
                std::os::unix::fs::symlink(&target, &obj).expect("symlink");
            }
            _ => {}
        }
        report.hit(&format!("fault:destination_{}", dest_pre));
        if source.contains("Top_pad_1") {
            report.hit("probe:image_ends_at_top_of_memory");
        }
        let mut v: Vec<Violation> = Vec::new();
        let mut hash: Vec<u8> = Vec::new();
        let mut procs = 0u64;

        // ----- (a) compile: exactly 2(n+1) bytes, big-endian, origin first -----
        let mut args: Vec<std::ffi::OsString> = vec!["compile".into(), asm.clone().into_os_string(), obj.clone().into_os_string()];
        if stack {
            args.push("-f".into());
            args.push("stack".into());
        }
        let compiled = run_lace(
            &scratch,
            &Run {
                args,
                cwd: &scratch.dir,
                stdin: b"",
                plan: None,
                watch: None,
                rlimit_fsize: None,
            },
        );
        procs += 1;
        hash.extend_from_slice(compiled.label().as_bytes());
        let written = std::fs::read(&obj).unwrap_or_default();
        if compiled.status != Some(0) {
            v.push(Violation::new(ID, "C06/compile/status", format!("compile of a valid program ended with {}", compiled.label())));
        } else if written != expected {
            let what = if written.len() != expected.len() {
                "length"
            } else if written[..2] != expected[..2] {
                "origin-word"
            } else {
                "words"
            };
            v.push(Violation::new(
                ID,
                format!("C06/compile/bytes/{}/dest={}", what, dest_pre),
                format!("object file has {} bytes {:02x?}.., expected {} bytes {:02x?}..", written.len(), &written[..written.len().min(8)], expected.len(), &expected[..expected.len().min(8)]),
            ));
        }
        if program.orig.is_none() {
            report.hit("probe:default_origin");
        }

        if v.is_empty() {
            // ----- (b) round trip: run the object file vs run the source -----
            let from_obj = run_file(&scratch, &obj, stack, minimal, None);
            let from_asm = run_file(&scratch, &asm, stack, minimal, None);
            procs += 2;
            hash.extend_from_slice(from_obj.label().as_bytes());
            hash.extend_from_slice(&program_output(&from_obj.stdout));
            if from_obj.hang || from_asm.hang {
                report.discarded = Some("program-hangs".into());
                return report;
            }
            if from_obj.label() != from_asm.label() {
                v.push(Violation::new(
                    ID,
                    "C06/roundtrip/status",
                    format!("run of the object file: {}, run of the source: {}", from_obj.label(), from_asm.label()),
                ));
            } else if program_output(&from_obj.stdout) != program_output(&from_asm.stdout) {
                v.push(Violation::new(
                    ID,
                    "C06/roundtrip/stdout",
                    format!(
                        "program output differs: object {:?}, source {:?}",
                        String::from_utf8_lossy(&program_output(&from_obj.stdout)).chars().take(60).collect::<String>(),
                        String::from_utf8_lossy(&program_output(&from_asm.stdout)).chars().take(60).collect::<String>()
                    ),
                ));
            }
            report.hit(&format!("probe:end_{}", from_obj.label()));

            // ----- (b') the same bytes through a named pipe, in pieces -----
            if expected.len() <= 60_000 {
                let piece = *[1usize, 2, 3, 7, 512, 4096].get(expected.len() % 6).unwrap_or(&2);
                if let Some(piped) = run_via_fifo(&scratch, &expected, piece, stack, minimal) {
                    procs += 1;
                    report.hit("fault:object_file_is_a_pipe");
                    hash.extend_from_slice(piped.label().as_bytes());
                    if piped.label() != from_obj.label() || program_output(&piped.stdout) != program_output(&from_obj.stdout) {
                        v.push(Violation::new(
                            ID,
                            "C06/pipe/differs-from-file",
                            format!(
                                "the object file offered as a named pipe ({} bytes in pieces of {}): {}, as a regular file: {}",
                                expected.len(),
                                piece,
                                piped.label(),
                                from_obj.label()
                            ),
                        ));
                    }
                }
            }

            // ----- (d) read faults on the object file must be transparent -----
            let k = scenario.get_int("read_fault_at").unwrap_or(1);
            let baseline = run_file(&scratch, &obj, stack, minimal, Some(String::new()));
            procs += 1;
            let n_reads = baseline.reads();
            for (plan, name) in [
                (format!("r1:short=1;r2:short=1;r3:short=3"), "short-read"),
                (format!("r{}:errno=4", k), "eintr"),
                (format!("r{}:errno=5", k.min(n_reads.max(1) as i64)), "eio"),
            ] {
                let faulted = run_file(&scratch, &obj, stack, minimal, Some(plan.clone()));
                procs += 1;
                hash.extend_from_slice(faulted.label().as_bytes());
                if faulted.faults_fired() == 0 {
                    continue;
                }
                report.hit(&format!("fault:{}", name));
                if name == "eio" {
                    let clean = faulted.signal.is_none() && faulted.status.is_some_and(|s| s != 0 && s != 101) && !has_running_line(&faulted.stdout);
                    if !clean {
                        v.push(Violation::new(
                            ID,
                            "C06/read-fault/eio/not-a-clean-error",
                            format!("EIO while reading the object file ended with {}", faulted.label()),
                        ));
                    }
                } else if faulted.label() != from_obj.label() || program_output(&faulted.stdout) != program_output(&from_obj.stdout) {
                    v.push(Violation::new(
                        ID,
                        format!("C06/read-fault/{}/not-transparent", name),
                        format!("with {} the run ended {} (without: {})", plan, faulted.label(), from_obj.label()),
                    ));
                }
            }
        }

        // ----- (c) storage faults: torn, extended and re-headed files -----
        let mut candidates: Vec<(Vec<u8>, &'static str)> = Vec::new();
        // An all-HALT image keeps accepted runs finite
        let halts: Vec<u8> = {
            let mut w = vec![0x3000u16];
            w.extend(std::iter::repeat(0xF025).take(5));
            words_to_bytes(&w)
        };
        for len in 0..=halts.len() {
            candidates.push((halts[..len].to_vec(), "torn"));
        }
        let mut extended = halts.clone();
        extended.push(0xF0);
        candidates.push((extended.clone(), "appended_1"));
        extended.push(0x25);
        candidates.push((extended, "appended_2"));
        // The real object file torn at an odd length and at zero
        if expected.len() > 3 {
            candidates.push((expected[..expected.len() - 1].to_vec(), "torn"));
            candidates.push((expected[..1].to_vec(), "torn"));
        }
        for r in scenario.get_arr("reheads").unwrap_or(&[]) {
            let o = r.get_int("orig").unwrap_or(0x3000) as u16;
            let n = r.get_int("halts").unwrap_or(1) as usize;
            let mut w = vec![o];
            w.extend(std::iter::repeat(0xF025).take(n));
            candidates.push((words_to_bytes(&w), "reheaded"));
        }
        let torn_path = scratch.path("t.lc3");
        for (bytes, family) in &candidates {
            std::fs::write(&torn_path, bytes).expect("torn file");
            let ext_obj = family == &"reheaded" && bytes.len() % 4 == 0;
            // Both documented extensions take the same path
            let path = if ext_obj {
                let p = scratch.path("t.obj");
                let _ = std::fs::rename(&torn_path, &p);
                p
            } else {
                torn_path.clone()
            };
            let p = run_file(&scratch, &path, false, true, None);
            procs += 1;
            let _ = std::fs::remove_file(&path);
            hash.extend_from_slice(p.label().as_bytes());
            report.hit(&format!("fault:{}", family));
            let accept = ref_loader_accepts(bytes);
            let running = has_running_line(&p.stdout);
            let crashed = p.signal.is_some() || p.status == Some(101) || p.hang;
            let first = if bytes.len() >= 2 { u16::from_be_bytes([bytes[0], bytes[1]]) as usize } else { 0 };
            let boundary = if bytes.len() >= 2 && bytes.len() % 2 == 0 {
                match (first + bytes.len() / 2) as i64 - 0x10000 {
                    0 => "ends-at-top",
                    -1 => "one-below-top",
                    1 => "one-above-top",
                    d if d > 1 => "above-top",
                    _ => "inside",
                }
            } else if bytes.is_empty() {
                "empty"
            } else {
                "odd-length"
            };
            if accept {
                report.hit(&format!("probe:accepted_{}", boundary));
            } else {
                report.hit(&format!("probe:rejected_{}", boundary));
            }
            if crashed {
                v.push(Violation::new(
                    ID,
                    format!("C06/loader/crash/{}", boundary),
                    format!("loading a {}-byte file (first word x{:04x}) ended with {}", bytes.len(), first, p.label()),
                ));
            } else if accept && !running {
                v.push(Violation::new(
                    ID,
                    format!("C06/loader/rejected-loadable/{}", boundary),
                    format!("a loadable {}-byte file (first word x{:04x}) was rejected: {}", bytes.len(), first, p.label()),
                ));
            } else if !accept && (running || p.status == Some(0)) {
                v.push(Violation::new(
                    ID,
                    format!("C06/loader/accepted-unloadable/{}", boundary),
                    format!("an unloadable {}-byte file (first word x{:04x}) was accepted: {}", bytes.len(), first, p.label()),
                ));
            }
        }

        report.count("processes", procs);
        report.nontrivial = expected.len() >= 6;
        report.signature = fnv(&expected) ^ fnv(format!("{}{}", stack, minimal).as_bytes());
        report.log_hash = fnv(&hash);
        report.sim_ticks = procs;
        report.violations = v;
        report
    }
    fn shrink(&self, scenario: &J) -> Vec<J> {
        let mut out = Vec::new();
        if let Some(program) = scenario.get("program").and_then(scn::program_from_json) {
            for q in scn::shrink_program(&program) {
                out.push(scenario.clone().set("program", scn::program_to_json(&q)));
            }
        }
        let reheads: Vec<J> = scenario.get_arr("reheads").map(|a| a.to_vec()).unwrap_or_default();
        for r in scn::shrink_list(&reheads) {
            out.push(scenario.clone().set("reheads", J::Arr(r)));
        }
        out
    }
    fn rule(&self) -> String {
        "Per run a generated terminating program (any accepted origin, with/without -f stack, output traps, all endings, no input) goes through: (a) `lace compile p.asm p.lc3`: the file must hold exactly 2(n+1) bytes = big-endian origin (0x3000 without .orig) followed by the n words the library emits for the same text; (b) `lace run p.lc3` vs `lace run p.asm` (same flags): identical exit status and identical output between the Running and Completed lines; (c) storage faults: an all-HALT image torn at every byte length 0..len (every parity, the empty file), extended by 1 and 2 bytes, the real object torn at odd lengths, and re-headed images whose origin + length land exactly at, one below and one above the top of memory, plus origins 0, 0x2FFF, 0x3000, 0xFDFF, 0xFE00, 0xFFFE, 0xFFFF and a random one, under both .lc3 and .obj extensions — RefLoader (non-empty, even length, first word + length/2 <= 0x10000) decides accept (Running line appears) or reject (non-zero exit, not 101, no signal, no Running line); (d) read faults through the shim on p.lc3: short reads of 1-3 bytes and EINTR at the k-th read must be transparent, EIO must give a clean error exit. evaluations counts programs; `processes` counts process runs. Non-trivial: object of at least 3 words; distinct = distinct (object bytes, flags).".into()
    }
    fn assumptions(&self) -> Vec<String> {
        vec![
            "the binary under test is the shipped one (guard OFF) built from /repo's current tree".into(),
            "expected object bytes come from the same tree through the public library API; whether those words are the right encoding is C01's subject".into(),
            "what an accepted image does after the Running line is C03's subject; all-HALT images keep storage-fault runs finite".into(),
        ]
    }
    fn components(&self) -> J {
        J::obj()
            .set("real", J::Arr(["the whole `lace` binary: Compile arm, run() extension dispatch, loader, VM", "kernel file system (tmpfs scratch directory)"].iter().map(|s| J::from(*s)).collect()))
            .set("stub", J::Arr(["outcome of read() calls on the object file (faultfs.so)", "the disk between the two processes (the harness rewrites the file)"].iter().map(|s| J::from(*s)).collect()))
    }
    fn expected_probes(&self) -> Vec<&'static str> {
        vec![
            "fault:torn",
            "fault:reheaded",
            "fault:appended_1",
            "fault:short-read",
            "fault:eintr",
            "fault:eio",
            "probe:accepted_ends-at-top",
            "probe:rejected_one-above-top",
            "probe:accepted_one-below-top",
            "probe:rejected_empty",
            "probe:rejected_odd-length",
            "probe:default_origin",
        ]
    }
}
