pub mod c03;
pub mod c06;
pub mod c08;
pub mod c14;
pub mod c19;
pub mod c20;
pub mod dbg_checks;

use crate::engine::Check;

pub fn by_id(id: &str) -> Option<&'static dyn Check> {
    match id {
        "C03" => Some(&c03::C03),
        "C06" => Some(&c06::C06),
        "C08" => Some(&c08::C08),
        "C09" => Some(&dbg_checks::C09),
        "C10" => Some(&dbg_checks::C10),
        "C11" => Some(&dbg_checks::C11),
        "C12" => Some(&dbg_checks::C12),
        "C13" => Some(&dbg_checks::C13),
        "C14" => Some(&c14::C14),
        "C15" => Some(&dbg_checks::C15),
        "C16" => Some(&dbg_checks::C16),
        "C19" => Some(&c19::C19),
        "C20" => Some(&c20::C20),
        _ => None,
    }
}

const FEATURES: [&str; 36] = [
    "alu", "ld_st", "ldi_sti", "ldr_str", "loop", "nested_loop", "call_rets", "jsr_ret", "push_pop", "nested_sub",
    "jsrr", "recursion_call", "recursion_jsr", "self_modify", "puts", "out", "putn", "putsp", "trap_lit", "reg",
    "input", "cond_branch", "mid_halt", "jump_ffff", "jump_below", "jump_above", "unknown_trap",
    "raw_stack_word_flag_off", "ret_from_main", "fall_off_end", "string_across_top_of_memory", "tail_beyond_user_space", "puts_terminator_zero_low_byte", "image_ends_at_top_of_memory", "self_modify_into_call", "inline_argument_sub",
];

/// Feature names travel through JSON; give them back their static lifetime.
pub fn intern_feature(name: &str) -> Option<&'static str> {
    FEATURES.iter().copied().find(|f| !f.is_empty() && *f == name)
}
