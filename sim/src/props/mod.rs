pub mod c03;

use crate::engine::Check;

pub fn by_id(id: &str) -> Option<&'static dyn Check> {
    match id {
        "C03" => Some(&c03::C03),
        _ => None,
    }
}

pub const ALL: &[&str] = &["C03"];
