//! C19 — Assembling is a pure function of the source text (world C).
//!
//! Simulated system: the long-lived watcher of `lace watch` and the file it re-reads. One
//! thread executes, for every simulated file event, exactly the call sequence of the watch
//! closure (StaticSource::new, AsmParser::new -> parse -> backpatch, render, reset_state,
//! reclaim). Oracle: the same text assembled on a fresh thread (= a fresh `lace check`).
//! Event-stream faults: torn reads (prefix of the new version), duplicated events, coalesced
//! events, reverts.

use std::panic::{catch_unwind, AssertUnwindSafe};
use std::str::FromStr;

use crate::capture::Capture;
use crate::engine::{Check, Report, Tier, Violation};
use crate::gen::{self, GenOpts};
use crate::json::J;
use crate::rng::{fnv, run_seed, Rng};
use crate::scn;
use crate::world_a::take_panic_message;

pub struct C19;
const ID: &str = "C19";

/// What one re-check yields, rendered to text: on success the origin, every emitted word (or
/// its emission error), every statement span and the breakpoints; on failure the diagnostic.
fn assemble_and_render(text: &str, do_reset: bool) -> String {
    // The call sequence of the watch closure (main.rs), with the rendering in place of the
    // message it prints
    let mut contents = lace::StaticSource::new(text.to_string());
    let result = catch_unwind(AssertUnwindSafe(|| -> String {
        let src = contents.src();
        let assembled = (|| -> Result<lace::Air, String> {
            let parser = lace::AsmParser::new(src).map_err(|e| format!("{:?}", e))?;
            let mut air = parser.parse().map_err(|e| format!("{:?}", e))?;
            air.backpatch().map_err(|e| format!("{:?}", e))?;
            Ok(air)
        })();
        match assembled {
            Ok(air) => {
                let mut out = format!("OK orig={:?} n={}\n", air.orig(), air.len());
                for stmt in &air.ast {
                    let word = match stmt.emit() {
                        Ok(w) => format!("{:04x}", w),
                        Err(e) => format!("emit-error<{}>", format!("{:?}", e).lines().next().unwrap_or("")),
                    };
                    out.push_str(&format!("{} {} @{}+{}\n", stmt.line, word, stmt.span.offs(), stmt.span.len()));
                }
                for bp in air.breakpoints.iter() {
                    out.push_str(&format!("bp {} {}\n", bp.address, bp.is_predefined));
                }
                out
            }
            Err(diagnostic) => format!("ERR {}", diagnostic),
        }
    }));
    let rendered = match result {
        Ok(r) => r,
        Err(_) => format!("PANIC {}", take_panic_message().unwrap_or_default().split(" @ ").next().unwrap_or("")),
    };
    if do_reset {
        lace::reset_state();
    }
    // To avoid leaking memory
    contents.reclaim();
    rendered
}

fn init_features(stack: bool) {
    let features = lace::features::Features::from_str(if stack { "stack" } else { "" }).expect("features");
    lace::features::init(features);
}

/// The long-lived watcher: all events on one thread.
fn watcher(stack: bool, texts: Vec<String>, omit_reset: bool) -> Vec<String> {
    std::thread::Builder::new()
        .name("sim-watcher".into())
        .stack_size(8 << 20)
        .spawn(move || {
            init_features(stack);
            let mut out = Vec::new();
            for text in &texts {
                let rendered = assemble_and_render(text, !omit_reset);
                let died = rendered.starts_with("PANIC");
                out.push(rendered);
                if died {
                    // The real watcher process would be gone
                    break;
                }
            }
            out
        })
        .expect("spawn")
        .join()
        .unwrap_or_default()
}

/// A fresh `lace check`: the same text on a thread that has never assembled anything.
fn fresh(stack: bool, text: String) -> String {
    std::thread::Builder::new()
        .name("sim-fresh".into())
        .stack_size(8 << 20)
        .spawn(move || {
            init_features(stack);
            assemble_and_render(&text, true)
        })
        .expect("spawn")
        .join()
        .unwrap_or_else(|_| "PANIC (thread)".to_string())
}

// ---------------------------------------------------------------------------------------------
// History generation
// ---------------------------------------------------------------------------------------------

fn char_prefix(text: &str, rng: &mut Rng) -> String {
    let bounds: Vec<usize> = text.char_indices().map(|(i, _)| i).chain(std::iter::once(text.len())).collect();
    text[..*rng.pick(&bounds)].to_string()
}

fn lines_of(text: &str) -> Vec<String> {
    text.lines().map(|l| l.to_string()).collect()
}

fn mutate(rng: &mut Rng, base: &str, stack: bool) -> (String, &'static str) {
    let mut lines = lines_of(base);
    let n = lines.len().max(1);
    let at = rng.usize_below(n);
    match rng.below(15) {
        14 => {
            // A text on which the assembler itself crashes (C05's subject, not this property's):
            // what matters here is what a watcher that survives it says about the next version
            lines.insert(at, "    ld r1, .fill #3".to_string());
            (lines.join("\n") + "\n", "assembler_panic")
        }
        13 => {
            // Labels that differ only in letter case, and a reference spelled like neither
            lines.push("case_lbl_q .fill x0001".to_string());
            lines.push("CASE_LBL_Q .fill x0002".to_string());
            lines.push("Case_lbl_Q .fill x0003".to_string());
            lines.insert(0, format!("    ld r0, {}", rng.pick(&["Case_Lbl_q", "case_LBL_q", "CASE_lbl_q", "case_lbl_Q"])));
            (lines.join("\n") + "\n", "case_variant_labels")
        }
        12 => {
            // A big program: many labels in one assembly (tables grow, then must still be reset)
            let n = 100 + rng.usize_below(160);
            for i in 0..n {
                lines.push(format!("Big_{} .fill x{:04X}", i, i));
            }
            (lines.join("\n") + "\n", "many_labels")
        }
        0 => {
            // Lexer failure in the middle
            let bad = *rng.pick(&["@@@", "x10000", "#99999", ".bogus", "\"unterminated", "add r1, r1, $3"]);
            lines.insert(at, format!("    {}", bad));
            (lines.join("\n") + "\n", "lexer_error")
        }
        1 => {
            // Parser failure after the labels above were recorded
            let bad = *rng.pick(&["    add r1, r1", "    ld r1", "    jsr", "    not r1, #3", "    r1 r2", "    trap x1FF", "    .fill", "    add r1, r1, #16"]);
            lines.insert(at, bad.to_string());
            (lines.join("\n") + "\n", "parser_error")
        }
        2 => {
            // Duplicate label: reuse the first label found on a new statement
            let label = lines
                .iter()
                .filter_map(|l| l.split_whitespace().next())
                .find(|w| w.chars().next().is_some_and(|c| c.is_ascii_alphabetic() || c == '_') && w.chars().any(|c| c.is_ascii_digit()))
                .map(|w| w.trim_end_matches(':').to_string());
            match label {
                Some(l) => {
                    lines.insert(at, format!("{} and r0, r0, #0", l));
                    (lines.join("\n") + "\n", "duplicate_label")
                }
                None => (base.to_string(), "same"),
            }
        }
        3 => {
            lines.insert(at, "    ld r1, NoSuchLabel_9".to_string());
            (lines.join("\n") + "\n", "undefined_label")
        }
        4 => {
            // Fails only when words are emitted: a reference farther than 9 bits
            lines.insert(0, "    ld r1, FarAway_7".to_string());
            lines.push("    .blkw 300".to_string());
            lines.push("FarAway_7 .fill x0001".to_string());
            (lines.join("\n") + "\n", "emission_only_error")
        }
        5 => {
            // Same labels, different addresses
            let k = 1 + rng.usize_below(3);
            let insert_at = if lines.first().is_some_and(|l| l.to_ascii_lowercase().contains(".orig")) { 1 } else { 0 };
            for _ in 0..k {
                lines.insert(insert_at.min(lines.len()), "    and r0, r0, r0".to_string());
            }
            (lines.join("\n") + "\n", "shifted_labels")
        }
        6 => {
            if lines.len() > 1 {
                lines.remove(at);
            }
            (lines.join("\n") + "\n", "line_removed")
        }
        7 => {
            let orig = format!(".orig x{:04X}", rng.below(0x7000));
            if lines.first().is_some_and(|l| l.to_ascii_lowercase().contains(".orig")) {
                lines[0] = orig;
            } else {
                lines.insert(0, orig);
            }
            (lines.join("\n") + "\n", "origin_changed")
        }
        8 => {
            // A second .orig: error after some statements
            lines.insert(at, ".orig x4000".to_string());
            (lines.join("\n") + "\n", "second_orig")
        }
        9 => {
            // With the feature off this is a lexer failure that names the feature
            let _ = stack;
            lines.insert(at, "    push r1".to_string());
            lines.insert(at + 1, "    pop r2".to_string());
            (lines.join("\n") + "\n", "stack_mnemonics")
        }
        10 => {
            lines.insert(at, "    .break".to_string());
            (lines.join("\n") + "\n", "break_added")
        }
        _ => {
            lines.insert(at, "Lbl_new_1 .stringz \"é;\\n\"".to_string());
            (lines.join("\n") + "\n", "string_added")
        }
    }
}

fn gen_history(rng: &mut Rng) -> (bool, Vec<(String, String)>) {
    let stack = rng.coin();
    let fresh_program = |rng: &mut Rng| {
        let opts = GenOpts {
            stack,
            minimal: true,
            allow_input: true,
            allow_exception_endings: true,
            allow_breaks: rng.chance(1, 3),
            max_blocks: 1 + rng.usize_below(4),
            high_origin: false,
            tail_beyond_user: false,
        };
        gen::generate(rng, &opts).render()
    };
    let n = 2 + rng.usize_below(11);
    let mut versions: Vec<String> = vec![fresh_program(rng)];
    let mut events: Vec<(String, String)> = vec![(versions[0].clone(), "valid".to_string())];
    while events.len() < n {
        let last = versions.last().unwrap().clone();
        match rng.below(20) {
            0..=1 => {
                let text = fresh_program(rng);
                versions.push(text.clone());
                events.push((text, "valid_fresh".into()));
            }
            2..=4 => {
                // The editor truncates and rewrites; the watcher reads half-way
                let (next, kind) = mutate(rng, &last, stack);
                let torn = char_prefix(&next, rng);
                events.push((torn, format!("torn({})", kind)));
                versions.push(next.clone());
                events.push((next, kind.to_string()));
            }
            5..=6 => {
                // Batched notifications: the same content is re-checked
                let k = 1 + rng.usize_below(3);
                for _ in 0..k {
                    events.push((last.clone(), "duplicate_event".into()));
                }
            }
            7 => {
                // Two saves, one event: the intermediate version is never seen
                let (mid, _) = mutate(rng, &last, stack);
                let (next, kind) = mutate(rng, &mid, stack);
                versions.push(next.clone());
                events.push((next, format!("coalesced({})", kind)));
            }
            8..=9 if versions.len() >= 2 => {
                let back = versions[rng.usize_below(versions.len() - 1)].clone();
                versions.push(back.clone());
                events.push((back, "revert".into()));
            }
            10 => {
                events.push((String::new(), "torn(empty)".into()));
            }
            _ => {
                let (next, kind) = mutate(rng, &last, stack);
                versions.push(next.clone());
                events.push((next, kind.to_string()));
            }
        }
    }
    events.truncate(14);
    (stack, events)
}

impl Check for C19 {
    fn id(&self) -> &'static str {
        ID
    }
    fn world(&self) -> &'static str {
        "C (call sequence of the `lace watch` closure on one long-lived thread, public API only) + B'' (shipped `lace watch` on a real directory)"
    }
    fn runs(&self, tier: Tier) -> u64 {
        match tier {
            Tier::Quick => 12_000,
            Tier::Thorough => 1_000_000,
        }
    }
    fn generate(&self, seed: u64, index: u64) -> J {
        let mut rng = Rng::new(run_seed(seed, ID, index));
        if index % 1000 == 77 {
            // A long session in which more distinct label names pass through one process than a
            // 16-bit counter can tell apart: 23 versions with 3000 fresh names each, then one
            // that brings names of the first and of the latest versions together
            let version = |vs: &[usize]| -> String {
                let mut text = String::from("    halt\n");
                for v in vs {
                    for i in 0..3000 {
                        text.push_str(&format!("Lf_{}_{} .fill x{:04X}\n", v, i, i));
                    }
                }
                text
            };
            let mut events: Vec<J> = (0..23).map(|v| J::obj().set("kind", "many_distinct_labels").set("text", version(&[v]))).collect();
            let mut last = version(&[0, 21, 22]);
            last.insert_str(0, "    ld r0, Lf_0_5\n    ld r1, Lf_22_2999\n");
            events.push(J::obj().set("kind", "early_and_late_labels_together").set("text", last));
            return J::obj().set("stack", false).set("prelude", J::Null).set("real_watch", false).set("save_styles", "0").set("events", J::Arr(events));
        }
        let (stack, events) = gen_history(&mut rng);
        // One scenario in four starts with something assembled earlier in the same process under
        // the other feature setting (possible for library users; each setting on its own thread)
        let prelude = if rng.chance(1, 4) {
            J::obj()
                .set("stack", !stack)
                .set("text", "    push r1\n    pop r1\nP_lbl_1 halt\n")
        } else {
            J::Null
        };
        // One history in 250 is also played to the shipped `lace watch` process (the closure
        // itself lives in the binary and runs nowhere else)
        let real_watch = !stack && matches!(prelude, J::Null) && index % 300 == 5;
        let saves = rng.next_u64();
        J::obj().set("stack", stack).set("prelude", prelude).set("real_watch", real_watch).set("save_styles", format!("{:x}", saves)).set(
            "events",
            J::Arr(
                events
                    .into_iter()
                    .map(|(text, kind)| J::obj().set("kind", kind).set("text", text))
                    .collect(),
            ),
        )
    }
    fn execute(&self, _cap: &Capture, scenario: &J) -> Report {
        let mut report = Report::default();
        let stack = scenario.get_bool("stack").unwrap_or(false);
        let events: Vec<(String, String)> = scenario
            .get_arr("events")
            .unwrap_or(&[])
            .iter()
            .map(|e| (e.get_str("text").unwrap_or("").to_string(), e.get_str("kind").unwrap_or("").to_string()))
            .collect();
        let texts: Vec<String> = events.iter().map(|e| e.0.clone()).collect();
        // Sensitivity control (selftest only): the closure with `reset_state()` left out
        let omit_reset = scenario.get_bool("omit_reset").unwrap_or(false);
        if let Some(prelude) = scenario.get("prelude").filter(|p| !matches!(p, J::Null)) {
            let text = prelude.get_str("text").unwrap_or("").to_string();
            let _ = fresh(prelude.get_bool("stack").unwrap_or(false), text);
            report.hit("fault:earlier_assembly_under_other_feature_setting");
        }
        let seen = watcher(stack, texts.clone(), omit_reset);
        let mut v = Vec::new();
        let mut sig: Vec<u8> = Vec::new();
        let mut hash: Vec<u8> = Vec::new();
        let mut previous_failed = false;
        for (i, rendered) in seen.iter().enumerate() {
            let kind = events[i].1.as_str();
            let family = kind.split('(').next().unwrap_or(kind);
            report.hit(&format!("fault:{}", family));
            let expected = fresh(stack, texts[i].clone());
            hash.extend_from_slice(rendered.as_bytes());
            let outcome = rendered.split_whitespace().next().unwrap_or("");
            sig.push(fnv(format!("{}{}", family, outcome).as_bytes()) as u8);
            if outcome == "ERR" {
                report.hit("probe:failed_assembly_in_history");
            }
            if outcome == "OK" && previous_failed {
                report.hit("probe:success_right_after_failure");
            }
            if outcome == "OK" && family == "torn" {
                report.hit("probe:torn_prefix_assembled_ok");
            }
            if outcome == "PANIC" {
                report.hit("probe:assembler_panic(C05,not_claimed)");
            }
            if rendered != &expected {
                let prev_kind = if i > 0 { events[i - 1].1.split('(').next().unwrap_or("") } else { "none" };
                let got = rendered.split_whitespace().next().unwrap_or("");
                let want = expected.split_whitespace().next().unwrap_or("");
                v.push(Violation::new(
                    ID,
                    format!("C19/differs-from-fresh/after={}/watch={}/fresh={}", prev_kind, got, want),
                    format!(
                        "re-check #{} ({}) on the watcher thread differs from a fresh assembly of the same text: watcher {:?}, fresh {:?}",
                        i,
                        kind,
                        rendered.lines().next().unwrap_or(""),
                        expected.lines().next().unwrap_or("")
                    ),
                ));
                break;
            }
            previous_failed = outcome == "ERR";
        }
        // Every eighth history is also compared with a fresh *process* (state that is global to
        // the process, not to the thread, would fool the fresh-thread comparison)
        let with_prelude = scenario.get("prelude").is_some_and(|p| !matches!(p, J::Null));
        if v.is_empty() && !omit_reset && (with_prelude || fnv(scenario.to_string().as_bytes()) % 8 == 0) {
            if let Some(expected) = fresh_process(stack, &texts[..seen.len()]) {
                report.hit("probe:compared_with_fresh_process");
                for (i, rendered) in seen.iter().enumerate() {
                    if expected.get(i) != Some(rendered) {
                        v.push(Violation::new(
                            ID,
                            "C19/differs-from-fresh-process",
                            format!(
                                "re-check #{} ({}) differs from the same text assembled in a fresh process: watcher {:?}, fresh process {:?}",
                                i,
                                events[i].1,
                                rendered.lines().next().unwrap_or(""),
                                expected.get(i).map(|s| s.lines().next().unwrap_or("").to_string())
                            ),
                        ));
                        break;
                    }
                }
            }
        }
        // ----- the shipped watcher on a real directory -----
        if v.is_empty() && !omit_reset && scenario.get_bool("real_watch").unwrap_or(false) && !stack {
            real_watch(&texts, scenario, &mut report, &mut v);
        }
        report.nontrivial = seen.len() >= 2;
        report.signature = fnv(&sig) ^ fnv(&hash);
        report.log_hash = fnv(&hash);
        report.sim_ticks = seen.len() as u64;
        report.violations = v;
        report
    }
    fn shrink(&self, scenario: &J) -> Vec<J> {
        let events: Vec<J> = scenario.get_arr("events").map(|a| a.to_vec()).unwrap_or_default();
        let mut out = Vec::new();
        if scenario.get("prelude").is_some_and(|p| !matches!(p, J::Null)) {
            out.push(scenario.clone().set("prelude", J::Null));
        }
        for e in scn::shrink_list(&events) {
            if e.len() >= 1 {
                out.push(scenario.clone().set("events", J::Arr(e)));
            }
        }
        // Shorter texts: drop lines of single events
        for i in 0..events.len() {
            let text = events[i].get_str("text").unwrap_or("");
            let lines: Vec<String> = text.lines().map(|l| l.to_string()).collect();
            for shorter in scn::shrink_list(&lines).into_iter().take(24) {
                let mut e = events.clone();
                e[i] = e[i].clone().set("text", shorter.join("\n") + "\n");
                out.push(scenario.clone().set("events", J::Arr(e)));
            }
        }
        out
    }
    fn rule(&self) -> String {
        "A history of 2..14 re-checks on one long-lived watcher thread. File versions derive from a generated valid program by mutation: lexer failure inserted at a random line, parser failure after k labels were recorded, duplicate label, undefined label (fails only in backpatch), emission-only failure (label reference beyond 9 bits), same labels at shifted addresses, removed line, changed origin, second .orig, stack mnemonics, added .break, added .stringz with a multi-byte character; or a fresh program. Event-stream faults: torn read (a character-boundary prefix of the new version, incl. the empty file) followed by the full version, duplicated events (same content re-checked 1-3 times), coalesced events (an intermediate version never seen), revert to an earlier version. For every re-check the watcher's rendered result (origin, every emitted word or emission error, statement spans, breakpoints; or the full diagnostic text) must equal the result of the same text on a fresh thread. One history in 300 (those with the feature off and no prelude) is also played to the shipped `lace watch` process on a real directory (world B''): the file is rewritten version by version (up to five), the real notifications, debouncer and closure in main.rs do their work, and the report the process is left showing after each save must be the verdict of a fresh `lace check` process on the same text (paced by feedback; a mismatch or a missing report counts only if it repeats in a second run of the history). Non-trivial: at least 2 re-checks; distinct = distinct hash of the sequence of (version family, outcome) and of all rendered results.".into()
    }
    fn assumptions(&self) -> Vec<String> {
        vec![
            "the five calls of the watch closure are re-stated in the harness (the closure lives in the binary); inotify, the 500 ms debounce and the 50 ms sleep are real time and are not run — what they can do to the closure is modelled as faults on the event stream".into(),
            "features::init is called once per thread by the harness (the real watch arm never calls it: that omission belongs to C07, and without it stack mnemonics would panic on both sides)".into(),
            "a fresh OS thread equals a fresh process: every global of lace is thread-local".into(),
            "a panic of the assembler (C05, not claimed) ends the history, as it would end the real watcher; it is identical on the fresh thread and is not a C19 violation".into(),
        ]
    }
    fn components(&self) -> J {
        J::obj()
            .set(
                "real",
                J::Arr(
                    ["StaticSource::new/src/reclaim", "AsmParser::new (lexer, preprocess)", "AsmParser::parse", "Air::backpatch", "AsmLine::emit", "reset_state", "SYMBOL_TABLE thread-local", "world B'': the watch arm of main.rs (closure, hotwatch, inotify, debounce, file reads) in the shipped binary, for 1 history in 250"]
                        .iter()
                        .map(|s| J::from(*s))
                        .collect(),
                ),
            )
            .set(
                "stub",
                J::Arr(
                    ["the watch closure body (5 calls re-stated; the real one runs in world B'')", "hotwatch/inotify event source (simulated event list; real in world B'')", "file reads (texts handed over directly; real in world B'')", "debounce and sleep (not run; real in world B'')"]
                        .iter()
                        .map(|s| J::from(*s))
                        .collect(),
                ),
            )
    }
    fn expected_probes(&self) -> Vec<&'static str> {
        vec![
            "fault:real_watcher_process",
            "probe:real_watch_recheck_ok",
            "probe:real_watch_recheck_error",
            "fault:torn",
            "fault:duplicate_event",
            "fault:coalesced",
            "fault:revert",
            "fault:duplicate_label",
            "fault:undefined_label",
            "fault:emission_only_error",
            "fault:shifted_labels",
            "fault:many_labels",
            "probe:failed_assembly_in_history",
            "probe:success_right_after_failure",
            "probe:torn_prefix_assembled_ok",
        ]
    }
}

/// Memory-safety tier: the watcher histories under an interpreter that checks every access
/// (Miri). Run as `cargo +nightly miri run -- miri-c19 <n> [seed]`: no capture, no worker
/// processes, just `n` seeded histories executed through the closure's call sequence and
/// compared with fresh threads. A use of the reclaimed source text is reported by Miri itself.
pub fn miri_tier(n: u64, seed: u64) -> i32 {
    let check = C19;
    let mut bad = 0;
    for index in 0..n {
        let scenario = check.generate(seed, index);
        let stack = scenario.get_bool("stack").unwrap_or(false);
        let texts: Vec<String> = scenario
            .get_arr("events")
            .unwrap_or(&[])
            .iter()
            .map(|e| e.get_str("text").unwrap_or("").to_string())
            // Keep interpreted runs short
            .filter(|t| t.len() < 1500)
            .take(6)
            .collect();
        let seen = watcher(stack, texts.clone(), false);
        for (i, rendered) in seen.iter().enumerate() {
            let expected = fresh(stack, texts[i].clone());
            if *rendered != expected {
                println!("history {} re-check {} differs from a fresh assembly", index, i);
                bad += 1;
            }
        }
        println!("history {}: {} re-checks", index, seen.len());
    }
    if bad > 0 {
        1
    } else {
        0
    }
}

/// Assemble each text in a new process (one fresh thread per text) and return the rendered
/// results. `None` if the helper could not be run.
fn fresh_process(stack: bool, texts: &[String]) -> Option<Vec<String>> {
    use std::io::Write as _;
    let exe = std::env::current_exe().ok()?;
    let mut child = std::process::Command::new(exe)
        .arg("c19-fresh")
        .arg(if stack { "stack" } else { "plain" })
        .env("NO_COLOR", "1")
        .stdin(std::process::Stdio::piped())
        .stdout(std::process::Stdio::piped())
        .stderr(std::process::Stdio::null())
        .spawn()
        .ok()?;
    let input = J::Arr(texts.iter().map(|t| J::from(t.as_str())).collect()).to_string();
    child.stdin.take()?.write_all(input.as_bytes()).ok()?;
    let out = child.wait_with_output().ok()?;
    // The assembler itself may print to stdout (warnings): the answer is the last line
    let text = std::str::from_utf8(&out.stdout).ok()?;
    let parsed = J::parse(text.trim_end().lines().last()?).ok()?;
    Some(parsed.arr()?.iter().filter_map(|s| s.str().map(|s| s.to_string())).collect())
}

/// Helper process of `fresh_process`: texts as a JSON array on stdin, rendered results as a JSON
/// array on stdout (the assembler's own prints go to stderr / are filtered by position: the last
/// line of stdout is the answer).
pub fn fresh_helper(stack: bool) -> i32 {
    use std::io::Read as _;
    let mut input = String::new();
    if std::io::stdin().read_to_string(&mut input).is_err() {
        return 2;
    }
    let Ok(texts) = J::parse(&input) else {
        return 2;
    };
    let mut out: Vec<J> = Vec::new();
    for t in texts.arr().unwrap_or(&[]) {
        let text = t.str().unwrap_or("").to_string();
        out.push(J::from(fresh(stack, text)));
    }
    println!("\n{}", J::Arr(out).to_string());
    0
}

/// The history saved version by version under the eyes of the shipped `lace watch`: every
/// re-check it prints must (eventually, notifications come in bursts) be the verdict of a fresh
/// `lace check` of the text on disk.
fn real_watch(texts: &[String], scenario: &J, report: &mut Report, v: &mut Vec<Violation>) {
    use crate::world_b::Scratch;
    use crate::world_watch::run_watch;
    let styles = u64::from_str_radix(scenario.get_str("save_styles").unwrap_or("0"), 16).unwrap_or(0);
    // Wall-clock cost is half a second per version (the watcher's own debounce delay)
    let pin_mtime = styles & 1 == 1;
    let texts: Vec<String> = if pin_mtime {
        // Every version followed by a text of the same length (one letter of the first
        // instruction changed), all with the same modification time
        let mut out = Vec::new();
        for t in texts.iter().take(3) {
            out.push(t.clone());
            if let Some(at) = t.find("    ").and_then(|p| t[p..].find(|c: char| c.is_ascii_lowercase()).map(|q| p + q)) {
                let mut m = t.clone();
                m.replace_range(at..at + 1, if &t[at..at + 1] == "q" { "z" } else { "q" });
                out.push(m);
            }
        }
        out.truncate(5);
        report.hit("fault:same_length_versions_with_one_modification_time");
        out
    } else if styles & 2 == 2 && !texts.is_empty() {
        // The first version, then the same text with a line on which the assembler crashes, then
        // the rest: a watcher that survives the crash is judged on what follows
        let mut out: Vec<String> = vec![texts[0].clone()];
        let mut lines: Vec<&str> = texts[0].lines().collect();
        // (late in the file: the labels above it have been recorded by then)
        let at = lines.iter().rposition(|l| l.trim().eq_ignore_ascii_case(".end")).unwrap_or(lines.len());
        lines.insert(at, "    ld r1, .fill #3");
        out.push(lines.join("\n") + "\n");
        out.extend(texts.iter().skip(1).take(3).cloned());
        out
    } else {
        texts.iter().take(5).cloned().collect()
    };
    // Saves are plain rewrites of the file. (A save by rename - a new file moved over the old
    // one, as many editors do - is not noticed by `lace watch` at all: the screen keeps the
    // verdict of the old text. That is a defect of the watcher, but not of what C19 states, which
    // is about the re-checks that happen; see DESIGN.md section 12.)
    let _ = styles;
    let renames: Vec<bool> = vec![false; texts.len()];
    let scratch = Scratch::new("c19watch");
    let mut run = run_watch(&scratch, &texts, &renames, pin_mtime);
    let differs = |run: &crate::world_watch::WatchRun| run.seen.iter().enumerate().any(|(i, s)| run.fresh.get(i).is_some_and(|f| f != "PANIC") && s.as_ref() != run.fresh.get(i));
    if run.spawn_error.is_none() && (run.died.is_some() || differs(&run)) {
        // Only a verdict if it repeats: this is the one place where the load of the machine and
        // the timing of notifications could show
        report.hit("probe:real_watch_repeated");
        run = run_watch(&Scratch::new("c19watch"), &texts, &renames, pin_mtime);
    }
    report.hit("fault:real_watcher_process");
    report.count("processes", 1 + run.fresh.len() as u64);
    report.count("probe:real_watch_reports", run.reports as u64);
    report.count("probe:real_watch_saves_repeated", run.rewrites as u64);
    if let Some(e) = &run.spawn_error {
        report.hit(&format!("probe:real_watch_unavailable({})", e));
        return;
    }
    for (i, seen) in run.seen.iter().enumerate() {
        let fresh = &run.fresh[i];
        if fresh == "PANIC" {
            // Whatever the watcher showed for a text that crashes the assembler is not judged
            report.hit("fault:version_that_crashes_the_assembler");
            continue;
        }
        if renames[i] {
            report.hit("fault:save_by_rename");
        }
        if seen.as_ref() == Some(fresh) {
            report.hit(if fresh == "SUCCESS" { "probe:real_watch_recheck_ok" } else { "probe:real_watch_recheck_error" });
            continue;
        }
        let first = |s: &str| s.lines().find(|l| !l.trim().is_empty()).unwrap_or("").trim().chars().take(60).collect::<String>();
        let (key, detail) = match seen {
            None => (
                "C19/real-watch/no-recheck".to_string(),
                format!("version #{} was saved (and saved again {} times) but `lace watch` never re-checked it", i, run.rewrites),
            ),
            Some(s) => (
                format!(
                    "C19/real-watch/differs-from-fresh-check/watch={}/fresh={}",
                    if s == "SUCCESS" { "OK" } else { "ERR" },
                    if fresh == "SUCCESS" { "OK" } else { "ERR" }
                ),
                format!("re-check of version #{} by `lace watch` shows {:?}, a fresh `lace check` of the same text {:?}", i, first(s), first(fresh)),
            ),
        };
        v.push(Violation::new(ID, key, detail));
        return;
    }
    if let Some(died) = &run.died {
        v.push(Violation::new(ID, "C19/real-watch/ended".to_string(), died.clone()));
    }
}
