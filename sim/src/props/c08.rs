//! C08 — `lace compile` is all-or-nothing (world B, fault enumeration).
//!
//! Simulated system: one `lace compile SRC DEST` process plus the disk. Per sampled program
//! the single-fault space is swept completely: assembly failure at emission position k, and
//! for every mutating file-system call j of a fault-free run: ENOSPC, EIO, EINTR (one-shot),
//! sticky ENOSPC, short write; plus /dev/full, RLIMIT_FSIZE at every byte, uncreatable
//! destinations. Oracle: (status == 0 and dest == complete object) or (status != 0 and dest
//! as before).

use crate::capture::Capture;
use crate::engine::{Check, Report, Tier, Violation};
use crate::gen::{self, GenOpts, Program, Stmt};
use crate::json::J;
use crate::rng::{fnv, run_seed, Rng};
use crate::scn;
use crate::world_b::{assemble_words, run_lace, words_to_bytes, Proc, Run, Scratch};

pub struct C08;
const ID: &str = "C08";

const SENTINEL: &[u8] = b"PREVIOUS OBJECT FILE CONTENTS\n";

#[derive(Clone, Debug, PartialEq)]
pub enum Fault {
    None,
    Errno { at: usize, errno: i32 },
    Sticky { at: usize, errno: i32 },
    Short { at: usize, n: usize },
    DevFull,
    Fsize { limit: u64 },
    MissingDir,
    DestIsDir,
    Double(Box<Fault>, Box<Fault>),
    /// The process is killed right before (`after` false) or right after mutating call `at`.
    Kill { at: usize, after: bool },
    /// The reader of standard output leaves once the first status line has been read
    /// (`lace compile ... | head -1`): every later print fails.
    StdoutGone,
}

impl Fault {
    fn name(&self) -> String {
        match self {
            Fault::None => "none".into(),
            Fault::Errno { errno, .. } => format!("errno={}", errno_name(*errno)),
            Fault::Sticky { errno, .. } => format!("sticky={}", errno_name(*errno)),
            Fault::Short { .. } => "short-write".into(),
            Fault::DevFull => "dev-full".into(),
            Fault::Fsize { .. } => "rlimit-fsize".into(),
            Fault::MissingDir => "missing-dir".into(),
            Fault::DestIsDir => "dest-is-dir".into(),
            Fault::Double(..) => "double".into(),
            Fault::Kill { after: false, .. } => "killed-before-call".into(),
            Fault::Kill { after: true, .. } => "killed-after-call".into(),
            Fault::StdoutGone => "stdout-reader-gone".into(),
        }
    }
    fn plan(&self) -> Option<String> {
        match self {
            Fault::None => Some(String::new()),
            Fault::Errno { at, errno } => Some(format!("{}:errno={}", at, errno)),
            Fault::Sticky { at, errno } => Some(format!("{}:sticky={}", at, errno)),
            Fault::Short { at, n } => Some(format!("{}:short={}", at, n)),
            Fault::Kill { at, after } => Some(format!("{}:kill={}", at, *after as u8)),
            Fault::Double(a, b) => match (a.plan(), b.plan()) {
                (Some(a), Some(b)) => Some(format!("{};{}", a, b)),
                _ => None,
            },
            _ => None,
        }
    }
    fn to_json(&self) -> J {
        match self {
            Fault::None => J::obj().set("kind", "none"),
            Fault::Errno { at, errno } => J::obj().set("kind", "errno").set("at", *at).set("errno", *errno),
            Fault::Sticky { at, errno } => J::obj().set("kind", "sticky").set("at", *at).set("errno", *errno),
            Fault::Short { at, n } => J::obj().set("kind", "short").set("at", *at).set("n", *n),
            Fault::DevFull => J::obj().set("kind", "devfull"),
            Fault::Fsize { limit } => J::obj().set("kind", "fsize").set("limit", *limit),
            Fault::MissingDir => J::obj().set("kind", "missing_dir"),
            Fault::DestIsDir => J::obj().set("kind", "dest_is_dir"),
            Fault::Double(a, b) => J::obj().set("kind", "double").set("a", a.to_json()).set("b", b.to_json()),
            Fault::Kill { at, after } => J::obj().set("kind", "kill").set("at", *at).set("after", *after),
            Fault::StdoutGone => J::obj().set("kind", "stdout_gone"),
        }
    }
    fn from_json(j: &J) -> Option<Fault> {
        let at = || j.get_int("at").map(|a| a as usize);
        Some(match j.get_str("kind")? {
            "none" => Fault::None,
            "errno" => Fault::Errno {
                at: at()?,
                errno: j.get_int("errno")? as i32,
            },
            "sticky" => Fault::Sticky {
                at: at()?,
                errno: j.get_int("errno")? as i32,
            },
            "short" => Fault::Short {
                at: at()?,
                n: j.get_int("n")? as usize,
            },
            "devfull" => Fault::DevFull,
            "fsize" => Fault::Fsize {
                limit: j.get_int("limit")? as u64,
            },
            "missing_dir" => Fault::MissingDir,
            "dest_is_dir" => Fault::DestIsDir,
            "stdout_gone" => Fault::StdoutGone,
            "kill" => Fault::Kill {
                at: at()?,
                after: j.get_bool("after").unwrap_or(false),
            },
            "double" => Fault::Double(Box::new(Fault::from_json(j.get("a")?)?), Box::new(Fault::from_json(j.get("b")?)?)),
            _ => return None,
        })
    }
}

fn errno_name(e: i32) -> &'static str {
    match e {
        4 => "EINTR",
        5 => "EIO",
        13 => "EACCES",
        24 => "EMFILE",
        27 => "EFBIG",
        28 => "ENOSPC",
        _ => "E?",
    }
}

#[derive(Clone, Debug, PartialEq)]
enum Pre {
    Absent,
    /// A previous object file.
    Sentinel,
    /// Destination absent, but a longer stale `<dest>.tmp` is lying around.
    StaleTmp,
    /// Destination is a symbolic link to a longer previous object file.
    Symlink,
    /// Destination is a symbolic link whose target does not exist (yet).
    DanglingLink,
    /// Destination absent, its file name is not valid UTF-8.
    OddName,
    /// No destination argument: `<source stem>.lc3` in the current directory (absent before).
    DefaultDest,
    /// A previous object file that has a second name (hard link).
    HardLinked,
    /// A chain of two relative symbolic links through another directory, final target absent.
    LinkChain,
    /// A previous object file of exactly the new file's size (and newer than the source).
    SameSize,
}

impl Pre {
    fn name(&self) -> &'static str {
        match self {
            Pre::Absent => "absent",
            Pre::Sentinel => "present",
            Pre::StaleTmp => "stale_tmp",
            Pre::Symlink => "symlink",
            Pre::DanglingLink => "dangling_symlink",
            Pre::OddName => "non_utf8_name",
            Pre::DefaultDest => "default_destination",
            Pre::HardLinked => "hard_linked",
            Pre::LinkChain => "symlink_chain",
            Pre::SameSize => "same_size_previous_object",
        }
    }
    fn from_name(s: &str) -> Pre {
        match s {
            "present" => Pre::Sentinel,
            "stale_tmp" => Pre::StaleTmp,
            "symlink" => Pre::Symlink,
            "dangling_symlink" => Pre::DanglingLink,
            "non_utf8_name" => Pre::OddName,
            "default_destination" => Pre::DefaultDest,
            "hard_linked" => Pre::HardLinked,
            "symlink_chain" => Pre::LinkChain,
            "same_size_previous_object" => Pre::SameSize,
            _ => Pre::Absent,
        }
    }
}

/// Place one out-of-range label reference at statement `k`: everything before emits, `k` fails.
fn plant_failure(program: &mut Program, k: usize, width: u32) {
    let (text, pad) = match width {
        10 => ("call Far_away_1".to_string(), 600),
        11 => ("jsr Far_away_1".to_string(), 1100),
        _ => ("ld r1, Far_away_1".to_string(), 300),
    };
    let k = k.min(program.stmts.len());
    // One failing statement, or (one program in eight) a whole run of them: 255, 256, 257 or 512,
    // the counts at which a status derived from the number of failures would wrap
    let copies = if (k + pad) % 8 == 1 { [255usize, 256, 257, 512][(k + pad / 100) % 4] } else { 1 };
    for _ in 0..copies {
        program.stmts.insert(
            k,
            Stmt {
                labels: vec![],
                text: text.clone(),
                words: 1,
                breaks: 0,
            },
        );
    }
    let far = Stmt {
        labels: vec!["Far_away_1".to_string()],
        text: ".fill x0001".to_string(),
        words: 1,
        breaks: 0,
    };
    let padding = Stmt {
        labels: vec!["Pad_words_1".to_string()],
        text: format!(".blkw #{}", pad),
        words: pad,
        breaks: 0,
    };
    if (k + pad) % 3 == 0 {
        // The target lies *behind* the reference (a label the parser has already seen)
        program.stmts.insert(0, padding);
        program.stmts.insert(0, far);
    } else {
        program.stmts.push(padding);
        program.stmts.push(far);
    }
}

struct Setup {
    source: String,
    stack: bool,
    pre: Pre,
    /// Complete object file, or the stage at which assembling fails.
    full: Result<Vec<u8>, String>,
}

#[derive(Debug)]
enum DestState {
    Absent,
    Bytes(Vec<u8>),
    Directory,
    CharDevice,
    Other(String),
}

fn dest_state(path: &std::path::Path) -> DestState {
    // Through symbolic links: the property speaks of the destination path
    match std::fs::metadata(path) {
        Err(_) => DestState::Absent,
        Ok(m) if m.is_dir() => DestState::Directory,
        Ok(m) if m.is_file() => match std::fs::read(path) {
            Ok(b) => DestState::Bytes(b),
            Err(e) => DestState::Other(format!("unreadable: {}", e)),
        },
        Ok(m) if std::os::unix::fs::FileTypeExt::is_char_device(&m.file_type()) => DestState::CharDevice,
        Ok(_) => DestState::Other("special-file".to_string()),
    }
}

/// One compile under one fault. Returns (violation key/detail if any, process, faults fired).
fn compile_once(setup: &Setup, fault: &Fault) -> (Option<(String, String)>, Proc) {
    let scratch = Scratch::new("c08");
    let src = scratch.path("prog.asm");
    std::fs::write(&src, &setup.source).expect("write source");
    let out_dir = scratch.path("out");
    std::fs::create_dir_all(&out_dir).expect("out dir");
    let (dest, device): (std::path::PathBuf, bool) = match fault {
        Fault::DevFull => (std::path::PathBuf::from("/dev/full"), true),
        Fault::MissingDir => (out_dir.join("no/such/dir/prog.lc3"), false),
        Fault::DestIsDir => {
            let d = out_dir.join("prog.lc3");
            std::fs::create_dir_all(&d).expect("dir dest");
            (d, false)
        }
        _ if setup.pre == Pre::LinkChain => {
            std::fs::create_dir_all(out_dir.join("a")).expect("dir a");
            std::fs::create_dir_all(out_dir.join("b")).expect("dir b");
            (out_dir.join("a").join("out.lc3"), false)
        }
        _ if setup.pre == Pre::OddName => {
            use std::os::unix::ffi::OsStrExt;
            (out_dir.join(std::ffi::OsStr::from_bytes(b"pr\xffg\xfe.lc3")), false)
        }
        _ => (out_dir.join("prog.lc3"), false),
    };
    let before: Option<Vec<u8>> = match (&setup.pre, fault) {
        (_, Fault::DevFull) | (_, Fault::MissingDir) | (_, Fault::DestIsDir) => None,
        (Pre::Sentinel, _) => {
            std::fs::write(&dest, SENTINEL).expect("sentinel");
            Some(SENTINEL.to_vec())
        }
        (Pre::StaleTmp, _) => {
            // Left behind by an earlier compile that was killed: under the plain name, and under
            // the name a temporary file private to this very process id would have
            let mut tmp = dest.as_os_str().to_owned();
            tmp.push(".tmp");
            let junk: Vec<u8> = std::iter::repeat(b"STALE-TEMPORARY-FILE ".iter().copied()).flatten().take(4096).collect();
            std::fs::write(std::path::PathBuf::from(tmp), &junk).expect("stale tmp");
            crate::world_b::STALE_FOR_PID.with(|s| *s.borrow_mut() = Some((dest.clone(), junk)));
            None
        }
        (Pre::SameSize, _) => {
            let mut old: Vec<u8> = match &setup.full {
                Ok(full) => full.clone(),
                Err(_) => SENTINEL.to_vec(),
            };
            if let Some(last) = old.last_mut() {
                *last ^= 0x5a;
            }
            std::fs::write(&dest, &old).expect("same-size object");
            Some(old)
        }
        (Pre::Symlink, _) => {
            let target = out_dir.join("previous-object.bin");
            let old: Vec<u8> = std::iter::repeat(SENTINEL.iter().copied()).flatten().take(3000).collect();
            std::fs::write(&target, &old).expect("symlink target");
            std::os::unix::fs::symlink(&target, &dest).expect("symlink");
            Some(old)
        }
        (Pre::HardLinked, _) => {
            std::fs::write(&dest, SENTINEL).expect("sentinel");
            std::fs::hard_link(&dest, out_dir.join("second-name.lc3")).expect("hard link");
            Some(SENTINEL.to_vec())
        }
        (Pre::LinkChain, _) => {
            // a/out.lc3 -> ../b/second.lc3 ; b/second.lc3 -> real.lc3 (which does not exist yet)
            std::os::unix::fs::symlink("../b/second.lc3", &dest).expect("link 1");
            std::os::unix::fs::symlink("real.lc3", out_dir.join("b").join("second.lc3")).expect("link 2");
            None
        }
        (Pre::DanglingLink, _) => {
            std::os::unix::fs::symlink(out_dir.join("not-there-yet.bin"), &dest).expect("dangling symlink");
            None
        }
        (Pre::Absent, _) | (Pre::OddName, _) | (Pre::DefaultDest, _) => None,
    };
    let default_dest = setup.pre == Pre::DefaultDest && !device && !matches!(fault, Fault::MissingDir | Fault::DestIsDir);
    let mut args: Vec<std::ffi::OsString> = vec!["compile".into(), src.clone().into_os_string()];
    if !default_dest {
        args.push(dest.clone().into_os_string());
    }
    if setup.stack {
        args.push("-f".into());
        args.push("stack".into());
    }
    let run = Run {
        args,
        // Without a destination argument the object file goes to `prog.lc3` in the current
        // directory, by a relative path: the shim then watches every path (empty prefix)
        cwd: if default_dest { &out_dir } else { &scratch.dir },
        stdin: b"",
        plan: fault.plan(),
        watch: if default_dest { Some(std::path::Path::new("")) } else { Some(&out_dir) },
        rlimit_fsize: match fault {
            Fault::Fsize { limit } => Some(*limit),
            _ => None,
        },
    };
    let proc_ = if matches!(fault, Fault::StdoutGone) {
        // Under the call scheduler: when the process parks at its first file-system call the
        // first status line has been printed and read; then the reader leaves
        let spec = crate::world_gate::GatedSpec {
            args: run.args.clone(),
            plan: String::new(),
            stdout_reader_leaves: true,
        };
        let watch = run.watch.unwrap_or(&scratch.dir).to_path_buf();
        match crate::world_gate::run_gated(&scratch, &watch, run.cwd, &[spec], &mut |parked| parked[0], &mut |_, _| {}) {
            Ok(exits) => Proc {
                status: exits[0].status,
                signal: exits[0].signal,
                stdout: Vec::new(),
                stderr: exits[0].stderr.clone(),
                hang: false,
                shim_log: vec!["F stdout reader gone".to_string()],
            },
            Err(_) => Proc {
                status: None,
                signal: None,
                stdout: Vec::new(),
                stderr: Vec::new(),
                hang: true,
                shim_log: Vec::new(),
            },
        }
    } else {
        run_lace(&scratch, &run)
    };
    if proc_.hang {
        return (Some((format!("C08/{}/hang", fault.name()), "compile did not end within 20 s".into())), proc_);
    }
    let ok_status = proc_.status == Some(0);
    let after = dest_state(&dest);
    let describe = |s: &DestState| -> String {
        match (s, &setup.full) {
            (DestState::Absent, _) => "absent".into(),
            (DestState::Directory, _) => "directory".into(),
            (DestState::CharDevice, _) => "device".into(),
            (DestState::Other(t), _) => format!("other({})", t),
            (DestState::Bytes(b), _) if Some(b) == before.as_ref() => "as-before".into(),
            (DestState::Bytes(b), Ok(full)) if b == full => "complete".into(),
            (DestState::Bytes(b), Ok(full)) if full.starts_with(b) => "truncated".into(),
            (DestState::Bytes(b), Err(_)) if b.len() % 2 == 0 => "partial-object".into(),
            (DestState::Bytes(_), _) => "damaged".into(),
        }
    };
    let state = describe(&after);
    let holds = if device {
        // The device node must still be the device node; success is impossible
        !ok_status && matches!(&after, DestState::CharDevice)
    } else if matches!(fault, Fault::DestIsDir) {
        !ok_status && matches!(after, DestState::Directory)
    } else if matches!(fault, Fault::Kill { .. }) && proc_.signal == Some(9) {
        // A crash has no exit status to be consistent with: whatever instant it strikes at, the
        // destination is the old state or the complete new file, never anything in between
        match (&after, &before, &setup.full) {
            (DestState::Absent, None, _) => true,
            (DestState::Bytes(b), Some(prev), _) if b == prev => true,
            (DestState::Bytes(b), _, Ok(full)) => b == full,
            _ => false,
        }
    } else if ok_status {
        matches!((&after, &setup.full), (DestState::Bytes(b), Ok(full)) if b == full)
    } else {
        match (&after, &before) {
            (DestState::Absent, None) => true,
            (DestState::Bytes(b), Some(prev)) => b == prev,
            _ => false,
        }
    };
    if holds {
        return (None, proc_);
    }
    let asm = match &setup.full {
        Ok(_) => "valid-source".to_string(),
        Err(stage) => format!("asm-fails:{}", stage.split('@').next().unwrap_or("")),
    };
    let key = format!(
        "C08/{}/{}/status={}/dest={}",
        asm,
        fault.name(),
        if ok_status { "0" } else { "nonzero" },
        state
    );
    let detail = format!(
        "compile under fault {:?} (destination before: {}): {} and destination {}; stderr: {:?}",
        fault,
        setup.pre.name(),
        proc_.label(),
        state,
        String::from_utf8_lossy(&proc_.stderr).lines().last().unwrap_or("")
    );
    (Some((key, detail)), proc_)
}

fn sweep(setup: &Setup, rng: &mut Rng, doubles: usize) -> Vec<Fault> {
    // Measure the mutating calls of a fault-free run
    let (_, clean) = compile_once(setup, &Fault::None);
    let j_max = clean.mutating_calls();
    let mut faults = vec![Fault::None, Fault::DevFull, Fault::MissingDir, Fault::DestIsDir];
    let positions: Vec<usize> = if j_max <= 80 {
        (1..=j_max).collect()
    } else {
        // Padded programs: first, last, and random ordinals
        let mut p = vec![1, 2, 3, j_max - 1, j_max];
        for _ in 0..16 {
            p.push(1 + rng.usize_below(j_max));
        }
        p.sort();
        p.dedup();
        p
    };
    for j in &positions {
        faults.push(Fault::Errno { at: *j, errno: 28 });
        faults.push(Fault::Errno { at: *j, errno: 5 });
        faults.push(Fault::Errno { at: *j, errno: 4 });
        faults.push(Fault::Sticky { at: *j, errno: 28 });
        faults.push(Fault::Short { at: *j, n: 1 });
        faults.push(Fault::Short { at: *j, n: 0 });
        faults.push(Fault::Kill { at: *j, after: false });
        faults.push(Fault::Kill { at: *j, after: true });
    }
    faults.push(Fault::StdoutGone);
    faults.push(Fault::Errno { at: 1, errno: 13 });
    faults.push(Fault::Errno { at: 1, errno: 24 });
    let full_len = setup.full.as_ref().map(|f| f.len()).unwrap_or(64) as u64;
    let limits: Vec<u64> = if setup.full.is_err() {
        // Nothing is ever written when assembling fails: a few limits are as good as all
        vec![0, 1, 63]
    } else if full_len <= 160 {
        (0..=full_len).collect()
    } else {
        let mut l = vec![0, 1, 2, 3, full_len - 1, full_len];
        for _ in 0..12 {
            l.push(rng.below(full_len));
        }
        l.sort();
        l.dedup();
        l
    };
    for limit in limits {
        faults.push(Fault::Fsize { limit });
    }
    for _ in 0..doubles {
        if j_max >= 2 {
            let a = 1 + rng.usize_below(j_max);
            let b = 1 + rng.usize_below(j_max);
            if a != b {
                let one = |rng: &mut Rng, at: usize| match rng.below(3) {
                    0 => Fault::Errno { at, errno: 4 },
                    1 => Fault::Short { at, n: 1 },
                    _ => Fault::Errno { at, errno: 28 },
                };
                faults.push(Fault::Double(Box::new(one(rng, a.min(b))), Box::new(one(rng, a.max(b)))));
            }
        }
    }
    faults
}

fn build(rng: &mut Rng) -> (Program, bool, Pre, &'static str) {
    let stack = rng.coin();
    let opts = GenOpts {
        stack,
        minimal: true,
        allow_input: false,
        allow_exception_endings: true,
        allow_breaks: rng.chance(1, 6),
        max_blocks: 1 + rng.usize_below(3),
        high_origin: false,
            tail_beyond_user: false,
    };
    let mut program = gen::generate(rng, &opts);
    let mut family = "valid";
    // (Below origin 0x2000 such a program has more than 57k statements and runs into the
    // assembler's own 16-bit statement counter, which is C05's subject.)
    if rng.chance(1, 10) && program.origin() >= 0x2000 {
        // An image too long to be loaded later (origin + words + 1 > 0x10000): compiling it is
        // still all-or-nothing
        let origin = program.origin() as usize;
        let have = program.n_words();
        let pad = 0x10000usize.saturating_sub(origin + have) + rng.usize_below(6);
        program.stmts.push(Stmt {
            labels: vec!["Huge_pad_1".to_string()],
            text: format!(".blkw x{:X}", pad),
            words: pad,
            breaks: 0,
        });
        family = "image_too_long_to_load";
    } else if rng.chance(1, 2) {
        let k = rng.usize_below(program.stmts.len() + 1);
        let width = if stack { *rng.pick(&[9u32, 10, 11]) } else { *rng.pick(&[9u32, 11]) };
        plant_failure(&mut program, k, width);
        family = "assembly_failure_at_k";
    }
    let pre = match rng.below(12) {
        0..=2 => Pre::Sentinel,
        3 => Pre::SameSize,
        4..=7 => Pre::Absent,
        8 => Pre::StaleTmp,
        9 => Pre::Symlink,
        10 => match rng.below(3) {
            0 => Pre::DanglingLink,
            1 => Pre::HardLinked,
            _ => Pre::LinkChain,
        },
        11 if rng.coin() => Pre::DefaultDest,
        _ => Pre::OddName,
    };
    (program, stack, pre, family)
}

impl Check for C08 {
    fn id(&self) -> &'static str {
        ID
    }
    fn level(&self) -> &'static str {
        "fault_enumeration"
    }
    fn world(&self) -> &'static str {
        "B (shipped `lace compile` as a process under the faultfs.so syscall shim, /dev/full, RLIMIT_FSIZE; two gated processes for the interleaving sweep)"
    }
    fn runs(&self, tier: Tier) -> u64 {
        match tier {
            Tier::Quick => 320,
            Tier::Thorough => 12_000,
        }
    }
    fn time_cap_s(&self, tier: Tier) -> u64 {
        match tier {
            Tier::Quick => 240,
            Tier::Thorough => 1500,
        }
    }
    fn generate(&self, seed: u64, index: u64) -> J {
        let mut rng = Rng::new(run_seed(seed, ID, index));
        let (program, stack, pre, family) = build(&mut rng);
        J::obj()
            .set("program", scn::program_to_json(&program))
            .set("stack", stack)
            .set("prestate", pre.name())
            .set("family", family)
            .set("faults", "sweep")
            .set("sweep_seed", J::Str(format!("{:016x}", rng.next_u64())))
            .set("doubles", if index % 3 == 0 { 6u64 } else { 0u64 })
            // Every fourth program is also compiled by two processes at once, to one destination
            .set("writers", if index % 4 == 1 { 2u64 } else { 1u64 })
            .set("writers_seed", J::Str(format!("{:016x}", rng.next_u64())))
    }
    fn execute(&self, _cap: &Capture, scenario: &J) -> Report {
        let mut report = Report::default();
        let Some(program) = scenario.get("program").and_then(scn::program_from_json) else {
            report.discarded = Some("bad-scenario".into());
            return report;
        };
        let stack = scenario.get_bool("stack").unwrap_or(false);
        let source = program.render();
        let full = assemble_words(&source, stack).map(|w| words_to_bytes(&w));
        if let Err(stage) = &full {
            if !stage.starts_with("emit@") {
                // Only emission failures are C08's subject; other failures never create the file
                report.hit("probe:assembly_fails_before_emission");
            }
            if stage == "panic" {
                report.discarded = Some("asm-panic".into());
                return report;
            }
        }
        let setup = Setup {
            source,
            stack,
            pre: Pre::from_name(scenario.get_str("prestate").unwrap_or("absent")),
            full,
        };
        let faults: Vec<Fault> = match scenario.get("faults") {
            // (a scenario narrowed to one two-writer schedule carries an empty list)
            Some(J::Arr(list)) => list.iter().filter_map(Fault::from_json).collect(),
            _ => {
                let seed = scenario
                    .get_str("sweep_seed")
                    .and_then(|s| u64::from_str_radix(s, 16).ok())
                    .unwrap_or(1);
                let mut rng = Rng::new(seed);
                sweep(&setup, &mut rng, scenario.get_int("doubles").unwrap_or(0) as usize)
            }
        };
        let mut hash: Vec<u8> = Vec::new();
        let mut seen_keys: Vec<String> = Vec::new();
        for fault in &faults {
            let (violation, proc_) = compile_once(&setup, fault);
            report.count("processes", 1);
            hash.extend_from_slice(proc_.label().as_bytes());
            hash.extend_from_slice(format!("{:?}", fault).as_bytes());
            // A fault counts only when it actually fired
            let fired = match fault {
                Fault::None => false,
                Fault::DevFull | Fault::MissingDir | Fault::DestIsDir | Fault::Fsize { .. } => true,
                _ => proc_.faults_fired() > 0,
            };
            if fired {
                report.hit(&format!("fault:{}", fault.name().split('(').next().unwrap_or("")));
            }
            if matches!(fault, Fault::Short { .. }) && fired && proc_.status == Some(0) {
                report.hit("probe:short_write_then_success");
            }
            if matches!(fault, Fault::Errno { errno: 4, .. }) && fired && proc_.status == Some(0) {
                report.hit("probe:eintr_then_success");
            }
            if let Some((key, detail)) = violation {
                if !seen_keys.contains(&key) {
                    seen_keys.push(key.clone());
                    report.violations.push(Violation::new(ID, key, detail));
                }
            }
        }
        let narrowed_to_faults = matches!(scenario.get("faults"), Some(J::Arr(list)) if !list.is_empty());
        if scenario.get_int("writers").unwrap_or(1) == 2 && matches!(setup.pre, Pre::Absent | Pre::Sentinel) && !narrowed_to_faults {
            let seed = scenario
                .get_str("writers_seed")
                .and_then(|s| u64::from_str_radix(s, 16).ok())
                .unwrap_or(1);
            two_writers(&setup, &program, seed, scenario.get("schedule"), &mut report, &mut seen_keys, &mut hash);
        }
        match &setup.full {
            Err(stage) if stage.starts_with("emit@") => {
                report.hit("fault:assembly_failure_at_emission_position_k");
                if stage == "emit@0" {
                    report.hit("probe:assembly_failure_at_position_0");
                }
            }
            _ => {}
        }
        report.hit(match setup.pre {
            Pre::Sentinel => "probe:destination_pre_existing",
            Pre::Absent => "probe:destination_absent",
            Pre::StaleTmp => "probe:stale_temporary_file_present",
            Pre::Symlink => "probe:destination_is_symlink",
            Pre::DanglingLink => "probe:destination_is_dangling_symlink",
            Pre::OddName => "probe:destination_name_not_utf8",
            Pre::DefaultDest => "probe:default_destination_in_cwd",
            Pre::HardLinked => "probe:destination_has_second_hard_link",
            Pre::LinkChain => "probe:destination_is_symlink_chain",
            Pre::SameSize => "probe:destination_is_same_size_previous_object",
        });
        report.nontrivial = faults.len() >= 2 || matches!(scenario.get("faults"), Some(J::Arr(_)));
        let shape = format!(
            "{}|{}|{:?}|{}",
            program.stmts.len(),
            setup.full.as_ref().map(|f| f.len()).unwrap_or(0),
            setup.full.as_ref().err(),
            faults.len()
        );
        report.signature = fnv(shape.as_bytes()) ^ fnv(scenario.get("program").map(|p| p.to_string()).unwrap_or_default().as_bytes());
        report.log_hash = fnv(&hash);
        report.sim_ticks = faults.len() as u64;
        report
    }
    fn shrink(&self, scenario: &J) -> Vec<J> {
        let mut out = Vec::new();
        // A sweep shrinks to its single faults (the executor reports which ones fail)
        if !matches!(scenario.get("faults"), Some(J::Arr(_))) {
            let Some(program) = scenario.get("program").and_then(scn::program_from_json) else {
                return out;
            };
            let stack = scenario.get_bool("stack").unwrap_or(false);
            let source = program.render();
            let setup = Setup {
                full: assemble_words(&source, stack).map(|w| words_to_bytes(&w)),
                source,
                stack,
                pre: Pre::from_name(scenario.get_str("prestate").unwrap_or("absent")),
            };
            let seed = scenario
                .get_str("sweep_seed")
                .and_then(|s| u64::from_str_radix(s, 16).ok())
                .unwrap_or(1);
            let mut rng = Rng::new(seed);
            for fault in sweep(&setup, &mut rng, scenario.get_int("doubles").unwrap_or(0) as usize) {
                out.push(scenario.clone().set("faults", J::Arr(vec![fault.to_json()])).set("writers", 1u64));
            }
            if scenario.get_int("writers").unwrap_or(1) == 2 {
                // ... or to one schedule of the two writers
                let wseed = scenario
                    .get_str("writers_seed")
                    .and_then(|s| u64::from_str_radix(s, 16).ok())
                    .unwrap_or(1);
                let mut wrng = Rng::new(wseed);
                let _ = wrng.chance(1, 4);
                for (order, plan_a, plan_b) in writer_schedules(&mut wrng) {
                    out.push(
                        scenario
                            .clone()
                            .set("faults", J::Arr(vec![]))
                            .set("schedule", J::obj().set("order", order).set("plan_a", plan_a).set("plan_b", plan_b)),
                    );
                }
            }
            return out;
        }
        if let Some(program) = scenario.get("program").and_then(scn::program_from_json) {
            for q in scn::shrink_program(&program) {
                out.push(scenario.clone().set("program", scn::program_to_json(&q)));
            }
        }
        if let Some(J::Arr(list)) = scenario.get("faults") {
            if let Some(Fault::Double(a, b)) = list.first().and_then(Fault::from_json) {
                out.push(scenario.clone().set("faults", J::Arr(vec![a.to_json()])));
                out.push(scenario.clone().set("faults", J::Arr(vec![b.to_json()])));
            }
        }
        if scenario.get_str("prestate") != Some("absent") {
            out.push(scenario.clone().set("prestate", "absent"));
        }
        out
    }
    fn rule(&self) -> String {
        "Scenario = (program, destination pre-state absent/present, fault). Programs: generated valid programs, half of them with one out-of-range label reference planted at a random statement k (9-, 10- and 11-bit fields; a .blkw pad pushes the target out of reach) so that everything before k emits and k fails. For every program the single-fault space is swept completely: no fault; for every mutating file-system call j = 1..J of a fault-free run of the same scenario (J measured through the shim): ENOSPC, EIO, EINTR one-shot, sticky ENOSPC, short write of 1 byte, write of 0 bytes, the process killed (SIGKILL) right before call j, the process killed right after call j; the reader of standard output gone once the first status line has been read (`lace compile ... | head -1`, made deterministic by the call scheduler: the reader leaves when the process parks at its first file-system call); EACCES and EMFILE on the first call; destination /dev/full; RLIMIT_FSIZE at every byte 0..length with SIGXFSZ ignored (a genuine short write followed by EFBIG); destination inside a missing directory; destination is a directory; every third program also 6 random double faults. Every fourth program (destination absent or pre-existing) is also compiled by two processes at once to the same destination, the second one from a source one word longer (one time in four: the same source): the shim parks every mutating call of both processes until the harness grants it, so the harness decides the interleaving - all 20 interleavings of open/write/rename x open/write/rename, plus 10 seeded interleavings with one failing call (ENOSPC, EIO or EINTR at call 1..3 of one process). Whenever a process has exited (the other parked or gone) and at the end, the destination must be the old state or a complete object of either writer, and a complete one after an exit with status 0. Faults are addressed by ordinal of mutating call, so the plan stays meaningful for implementations that buffer or use a temporary file plus rename. Oracle per process: (exit status 0 and destination == complete object) or (status != 0 and destination as before: absent, previous bytes, still the device node, still the directory); a panic counts as non-zero; a killed process has no status to be consistent with, so after a crash the destination must be the old state or the complete new file, never anything in between. evaluations counts programs; `processes` in other_counters counts fault runs. Non-trivial: a sweep of at least 2 faults; distinct = distinct (program, object length, failing stage, number of faults).".into()
    }
    fn assumptions(&self) -> Vec<String> {
        vec![
            "the binary under test is built from /repo's current tree with the verification guard OFF (the shipped program)".into(),
            "expected object bytes come from the same tree through the public library API (C01/C06 own their correctness)".into(),
            "LD_PRELOAD interposition of open/open64/openat/creat/write/read/rename/unlink/ftruncate/fsync/fdatasync sees every file-system call the Rust standard library makes on the destination directory (checked: the shim log of a fault-free run lists the open and every write)".into(),
            "after a crash (SIGKILL at a mutating call) the destination may be the old state or the complete new file: a crash has no exit status to be consistent with".into(),
            "two writers: when a process has exited, the destination is judged at that instant (everyone else is parked at a gate): complete after status 0, else the old state or a complete object of either writer".into(),
            "leftover temporary files are ignored; only the destination path is judged".into(),
        ]
    }
    fn components(&self) -> J {
        J::obj()
            .set("real", J::Arr(["the whole `lace` binary (clap front end, assembler, Compile arm, File I/O through libc)", "kernel file system (tmpfs scratch directory), /dev/full, RLIMIT_FSIZE"].iter().map(|s| J::from(*s)).collect()))
            .set("stub", J::Arr(["outcome of individual file-system calls on the destination directory (faultfs.so decides per ordinal)", "order of the file-system calls of two concurrent compiles (the harness grants them one at a time)"].iter().map(|s| J::from(*s)).collect()))
    }
    fn expected_probes(&self) -> Vec<&'static str> {
        vec![
            "fault:assembly_failure_at_emission_position_k",
            "fault:errno=ENOSPC",
            "fault:errno=EIO",
            "fault:errno=EINTR",
            "fault:sticky=ENOSPC",
            "fault:short-write",
            "fault:dev-full",
            "fault:rlimit-fsize",
            "fault:missing-dir",
            "fault:dest-is-dir",
            "fault:stdout-reader-gone",
            "fault:killed-before-call",
            "fault:killed-after-call",
            "fault:two_writers_interleaving",
            "fault:two_writers_one_failing_call",
            "probe:destination_pre_existing",
            "probe:destination_absent",
            "probe:stale_temporary_file_present",
            "probe:destination_is_symlink",
        ]
    }
}

fn writer_schedules(rng: &mut Rng) -> Vec<(String, String, String)> {
    let mut schedules: Vec<(String, String, String)> = Vec::new();
    // All interleavings of three calls each (open, write, rename)
    for mask in 0u32..64 {
        if mask.count_ones() == 3 {
            let order: String = (0..6).map(|i| if mask >> i & 1 == 1 { '1' } else { '0' }).collect();
            schedules.push((order, String::new(), String::new()));
        }
    }
    // One failing call in one of the processes, random interleavings
    for _ in 0..10 {
        let order: String = (0..12).map(|_| if rng.coin() { '1' } else { '0' }).collect();
        let fault = format!("{}:errno={}", 1 + rng.below(3), rng.pick(&[28, 5, 4]));
        if rng.coin() {
            schedules.push((order, fault, String::new()));
        } else {
            schedules.push((order, String::new(), fault));
        }
    }
    schedules
}

/// Two `lace compile` processes, one destination, every interleaving of their file-system calls
/// (the harness grants the calls one at a time), plus interleavings with one failing call.
/// Whenever a process has exited - everyone else parked - and at the end, the destination is the
/// state before or one complete object file; after an exit with status 0 it is a complete one.
fn two_writers(setup: &Setup, program: &Program, seed: u64, only: Option<&J>, report: &mut Report, seen_keys: &mut Vec<String>, hash: &mut Vec<u8>) {
    use crate::world_gate::{run_gated, GatedSpec, Step};
    let mut rng = Rng::new(seed);
    // The second writer compiles a slightly different program (one more word), so that the two
    // objects can be told apart; one time in four the very same source
    let mut other = program.clone();
    if !rng.chance(1, 4) {
        other.stmts.push(Stmt {
            labels: vec![],
            text: ".fill x1234".to_string(),
            words: 1,
            breaks: 0,
        });
    }
    let source_b = other.render();
    let full_b = assemble_words(&source_b, setup.stack).map(|w| words_to_bytes(&w));
    if matches!(&full_b, Err(stage) if stage == "panic") {
        return;
    }
    // Schedules: who goes next, as a string of process indices (exhausted: lowest parked first)
    let all = writer_schedules(&mut rng);
    let schedules: Vec<(String, String, String)> = match only {
        Some(j) => vec![(
            j.get_str("order").unwrap_or("").to_string(),
            j.get_str("plan_a").unwrap_or("").to_string(),
            j.get_str("plan_b").unwrap_or("").to_string(),
        )],
        None => all,
    };
    for (order, plan_a, plan_b) in schedules {
        let scratch = Scratch::new("c08w");
        let out_dir = scratch.path("out");
        std::fs::create_dir_all(&out_dir).expect("out dir");
        let src_a = scratch.path("a.asm");
        let src_b = scratch.path("b.asm");
        std::fs::write(&src_a, &setup.source).expect("write source");
        std::fs::write(&src_b, &source_b).expect("write source");
        let dest = out_dir.join("prog.lc3");
        let before: Option<Vec<u8>> = if setup.pre == Pre::Sentinel {
            std::fs::write(&dest, SENTINEL).expect("sentinel");
            Some(SENTINEL.to_vec())
        } else {
            None
        };
        let mut args_a: Vec<std::ffi::OsString> = vec!["compile".into(), src_a.clone().into_os_string(), dest.clone().into_os_string()];
        let mut args_b: Vec<std::ffi::OsString> = vec!["compile".into(), src_b.clone().into_os_string(), dest.clone().into_os_string()];
        if setup.stack {
            for a in [&mut args_a, &mut args_b] {
                a.push("-f".into());
                a.push("stack".into());
            }
        }
        let specs = [
            GatedSpec {
                args: args_a,
                plan: plan_a.clone(),
                stdout_reader_leaves: false,
            },
            GatedSpec {
                args: args_b,
                plan: plan_b.clone(),
                stdout_reader_leaves: false,
            },
        ];
        let classify = |dest: &std::path::Path| -> (&'static str, bool) {
            match dest_state(dest) {
                DestState::Absent => ("absent", before.is_none()),
                DestState::Bytes(b) => {
                    if Some(&b) == before.as_ref() {
                        ("as-before", true)
                    } else if matches!(&setup.full, Ok(f) if f == &b) || matches!(&full_b, Ok(f) if f == &b) {
                        ("complete", true)
                    } else if b.is_empty() {
                        ("empty", false)
                    } else {
                        ("partial-or-mixed", false)
                    }
                }
                _ => ("other", false),
            }
        };
        let mut turn = order.chars().map(|c| if c == '1' { 1usize } else { 0 }).collect::<Vec<_>>().into_iter();
        let mut choose = |parked: &[usize]| -> usize {
            for want in turn.by_ref() {
                if parked.contains(&want) {
                    return want;
                }
            }
            parked[0]
        };
        let mut trace: Vec<String> = Vec::new();
        let mut found: Option<(String, String)> = None;
        let mut observe = |step: &Step, exits: &[Option<crate::world_gate::GatedExit>]| match step {
            Step::Granted { proc_, op, .. } => trace.push(format!("{}:{}", if *proc_ == 0 { 'A' } else { 'B' }, op)),
            Step::Exited { proc_ } => {
                let status = exits[*proc_].as_ref().and_then(|e| e.status);
                trace.push(format!("{}:exit({:?})", if *proc_ == 0 { 'A' } else { 'B' }, status));
                let (state, fine) = classify(&dest);
                let ok_exit = status == Some(0);
                let holds = if ok_exit { state == "complete" } else { fine };
                if !holds && found.is_none() {
                    found = Some((
                        format!(
                            "C08/two-writers/{}/status={}/dest={}",
                            if plan_a.is_empty() && plan_b.is_empty() { "no-fault" } else { "one-failing-call" },
                            if ok_exit { "0" } else { "nonzero" },
                            state
                        ),
                        format!(
                            "two compiles to one destination, calls granted in the order {:?}: when process {} had exited with {:?} (the other parked or gone) the destination was {}",
                            trace,
                            if *proc_ == 0 { 'A' } else { 'B' },
                            status,
                            state
                        ),
                    ));
                }
            }
        };
        let result = run_gated(&scratch, &out_dir, &scratch.dir, &specs, &mut choose, &mut observe);
        report.count("processes", 2);
        report.hit("fault:two_writers_interleaving");
        if !(plan_a.is_empty() && plan_b.is_empty()) {
            report.hit("fault:two_writers_one_failing_call");
        }
        hash.extend_from_slice(trace.join(",").as_bytes());
        match result {
            Err(e) => {
                report.hit(&format!("probe:gate_error({})", e));
            }
            Ok(_) => {
                if let Some((key, detail)) = found {
                    if !seen_keys.contains(&key) {
                        seen_keys.push(key.clone());
                        let mut v = Violation::new(ID, key, detail);
                        // The failing schedule, for replay and minimisation
                        v.detail.push_str(&format!(" [schedule order={} plan_a={:?} plan_b={:?}]", order, plan_a, plan_b));
                        report.violations.push(v);
                    }
                }
            }
        }
    }
}
