//! C20 — The interactive line editor keeps its cursor inside the line (world D).
//!
//! The real `Terminal` is driven key by key (buffer and cursor inspected after every key) and
//! through its real `read()` path on the simulated key device (submitted lines, command
//! splitting, history recall); RefEditor is the oracle.

use std::panic::{catch_unwind, AssertUnwindSafe};

use lace::debugger::VerifTerminal;
use lace::verif::{self, Sim, SimStop, Transport};

use crate::capture::Capture;
use crate::engine::{Check, Report, Tier, Violation};
use crate::json::J;
use crate::model::editor::Editor;
use crate::rng::{fnv, run_seed, Rng};
use crate::scn;
use crate::world_a::{take_panic_message, Key2};

pub struct C20;
const ID: &str = "C20";

#[derive(Clone, Debug)]
struct Step {
    text: String,
    cursor: usize,
    index: usize,
    hist_len: usize,
    eol: bool,
}

#[derive(Clone, Debug, Default)]
struct Observed {
    /// State after each key of phase 1 (until the first end of line or a panic).
    steps: Vec<Step>,
    panic_at: Option<(usize, String)>,
    /// Commands returned by the real `read()` path (phase 2) and how it ended.
    commands: Vec<String>,
    history_after: Vec<String>,
    read_panic: Option<String>,
    /// History list right after the constructor (phase 2).
    history_loaded: Vec<String>,
    /// Bytes of the history file after phase 2 (None: no file, or the file-less constructor).
    file_after: Option<Vec<u8>>,
}

/// State of the history file before the session (the editor's only durable state).
#[derive(Clone, Debug)]
enum FileState {
    /// The constructor without a file.
    Unused,
    Bytes(Vec<u8>),
    /// The path of the history file is a directory.
    Directory,
}

/// Builds the bytes of a history file holding `history`, damaged the way real files get damaged.
/// Returns the bytes and the candidate lists the editor may start from.
fn history_file(history: &[String], fault: &str, at: usize) -> (FileState, Vec<Vec<String>>) {
    let mut lines: Vec<Vec<u8>> = history.iter().map(|l| l.as_bytes().to_vec()).collect();
    let at = if lines.is_empty() { 0 } else { at % (lines.len() + 1) };
    let mut ending: &[u8] = b"\n";
    let mut last_ending = true;
    let mut candidates = vec![history.to_vec()];
    match fault {
        "blank_lines" => {
            // Two sessions appending at once (a line and its newline are separate writes), or a
            // hand-edited file: blank lines are not commands and are not history
            let blank: &str = if at % 2 == 0 { "" } else { "  " };
            lines.insert(at, blank.as_bytes().to_vec());
            // Kept as an entry or dropped on load: both are accepted, what must hold is the
            // documented rule that Enter never submits a blank line
            let mut kept = history.to_vec();
            kept.insert(at, blank.to_string());
            candidates.push(kept);
        }
        "invalid_utf8" => {
            lines.insert(at, vec![b'e', b'c', 0xff, 0xfe, b'o']);
            // Either everything before the damaged line, or every intact line
            candidates.push(history[..at].to_vec());
        }
        "crlf" => ending = b"\r\n",
        "no_trailing_newline" => last_ending = false,
        "directory" => return (FileState::Directory, vec![Vec::new()]),
        _ => {}
    }
    let mut bytes = Vec::new();
    let n = lines.len();
    for (i, l) in lines.iter().enumerate() {
        bytes.extend_from_slice(l);
        if i + 1 < n || last_ending {
            bytes.extend_from_slice(ending);
        }
    }
    (FileState::Bytes(bytes), candidates)
}

/// The per-process scratch cache directory holding the debugger's history file.
fn cache_dir() -> std::path::PathBuf {
    static DIR: std::sync::OnceLock<std::path::PathBuf> = std::sync::OnceLock::new();
    DIR.get_or_init(|| {
        let base = if std::path::Path::new("/dev/shm").is_dir() {
            std::path::PathBuf::from("/dev/shm")
        } else {
            std::env::temp_dir()
        };
        let dir = base.join(format!("lace-simd-cache-{}", std::process::id()));
        let _ = std::fs::create_dir_all(&dir);
        // dirs_next::cache_dir() honours this variable
        std::env::set_var("XDG_CACHE_HOME", &dir);
        dir
    })
    .clone()
}

fn observe(history: &[String], keys: &[Key2], file: &FileState) -> Observed {
    let history = history.to_vec();
    let keys = keys.to_vec();
    // Every run starts from an empty cache directory
    let cache = cache_dir();
    if let Ok(entries) = std::fs::read_dir(&cache) {
        for e in entries.flatten() {
            if e.file_type().map(|t| t.is_dir()).unwrap_or(false) {
                let _ = std::fs::remove_dir_all(e.path());
            } else {
                let _ = std::fs::remove_file(e.path());
            }
        }
    }
    let history_file = cache.join("lace-debugger-history");
    let use_file = !matches!(file, FileState::Unused);
    match file {
        FileState::Unused => {}
        FileState::Bytes(bytes) => {
            let _ = std::fs::write(&history_file, bytes);
        }
        FileState::Directory => {
            let _ = std::fs::create_dir(&history_file);
        }
    }
    let handle = std::thread::Builder::new()
        .name("sim-editor".into())
        .stack_size(4 << 20)
        .spawn(move || {
            let mut obs = Observed::default();
            // Phase 1: key by key
            let mut term = VerifTerminal::verif_new(history.clone());
            for (i, key) in keys.iter().enumerate() {
                let result = catch_unwind(AssertUnwindSafe(|| term.verif_key(key.to_key())));
                match result {
                    Ok(eol) => {
                        let viewed = catch_unwind(AssertUnwindSafe(|| term.verif_view()));
                        match viewed {
                            Ok((text, cursor, index, hist_len)) => obs.steps.push(Step {
                                text,
                                cursor,
                                index,
                                hist_len,
                                eol,
                            }),
                            Err(_) => {
                                obs.panic_at = Some((i, take_panic_message().unwrap_or_default()));
                                break;
                            }
                        }
                        if eol {
                            break;
                        }
                    }
                    Err(_) => {
                        obs.panic_at = Some((i, take_panic_message().unwrap_or_default()));
                        break;
                    }
                }
            }
            // Phase 2: the real read() path on the simulated key device
            let mut sim = Sim::default();
            sim.transport = Some(Transport::Terminal(history.clone()));
            sim.keys = keys.iter().map(|k| k.to_key()).collect();
            verif::arm(sim);
            // Either the file-less constructor, or the real one reading the prepared history file
            let built = catch_unwind(AssertUnwindSafe(|| {
                if use_file {
                    VerifTerminal::verif_new_with_file()
                } else {
                    VerifTerminal::verif_new(history.clone())
                }
            }));
            let mut term2 = match built {
                Ok(t) => t,
                Err(_) => {
                    obs.read_panic = Some(format!("constructor: {}", take_panic_message().unwrap_or_default()));
                    verif::disarm();
                    return obs;
                }
            };
            obs.history_loaded = term2.verif_history();
            loop {
                let result = catch_unwind(AssertUnwindSafe(|| term2.verif_read()));
                match result {
                    Ok(cmd) => obs.commands.push(cmd),
                    Err(payload) => {
                        if payload.downcast_ref::<SimStop>().is_none() {
                            obs.read_panic = Some(take_panic_message().unwrap_or_default());
                        }
                        break;
                    }
                }
                if obs.commands.len() > 10_000 {
                    break;
                }
            }
            obs.history_after = catch_unwind(AssertUnwindSafe(|| term2.verif_history())).unwrap_or_default();
            verif::disarm();
            drop(term2);
            if use_file {
                obs.file_after = crate::world_pty::history_file_in(&cache);
            }
            obs
        })
        .expect("spawn");
    handle.join().unwrap_or_default()
}

const CHARS: [char; 18] = ['a', 'b', 'Z', '9', ' ', '+', ';', '_', 'é', '😀', '-', 'x', '\u{301}', '\u{200d}', 'ğ', '\u{2019}', '\u{a0}', '\u{3000}'];

fn random_key(rng: &mut Rng) -> Key2 {
    match rng.below(20) {
        0..=8 => Key2::Char(*rng.pick(&CHARS)),
        9 => Key2::Backspace,
        10 => Key2::Delete,
        11 => Key2::Left,
        12 => Key2::Right,
        13 | 14 => Key2::CtrlLeft,
        15 | 16 => Key2::CtrlRight,
        17 => Key2::Up,
        18 => Key2::Down,
        _ => Key2::Enter,
    }
}

fn key_name(k: &Key2) -> &'static str {
    match k {
        Key2::Enter => "enter",
        Key2::Backspace => "backspace",
        Key2::Delete => "delete",
        Key2::Left => "left",
        Key2::Right => "right",
        Key2::Up => "up",
        Key2::Down => "down",
        Key2::CtrlLeft => "ctrl-left",
        Key2::CtrlRight => "ctrl-right",
        Key2::Char(_) => "char",
    }
}

fn keys_to_json(keys: &[Key2]) -> J {
    J::Arr(keys.iter().map(|k| J::from(k.name())).collect())
}

fn keys_from_json(j: &J) -> Vec<Key2> {
    j.arr()
        .map(|a| a.iter().filter_map(|k| k.str()).filter_map(Key2::from_name).collect())
        .unwrap_or_default()
}

const HISTORIES: [&[&str]; 4] = [&[], &["abc def"], &["step", "é😀 x+1", "b a x3000;c"], &["a", "a b", "  lead"]];

const ENUM_KEYS: [Key2; 14] = [
    Key2::Char('a'),
    Key2::Char(' '),
    Key2::Char('+'),
    Key2::Char('é'),
    Key2::Char('😀'),
    Key2::Backspace,
    Key2::Delete,
    Key2::Left,
    Key2::Right,
    Key2::CtrlLeft,
    Key2::CtrlRight,
    Key2::Up,
    Key2::Down,
    Key2::Enter,
];

fn scenario_json(history: &[&str], keys: &[Key2]) -> J {
    J::obj()
        .set("history", scn::strings_to_json(&history.iter().map(|s| s.to_string()).collect::<Vec<_>>()))
        .set("keys", keys_to_json(keys))
}

impl Check for C20 {
    fn id(&self) -> &'static str {
        ID
    }
    fn world(&self) -> &'static str {
        "D (real Terminal line editor on a simulated key device; history file in a scratch cache directory) + B' (shipped binary on a pseudo-terminal)"
    }
    fn runs(&self, tier: Tier) -> u64 {
        match tier {
            Tier::Quick => 60_000,
            Tier::Thorough => 4_000_000,
        }
    }
    fn fixed_scenarios(&self, tier: Tier) -> Vec<J> {
        // Exhaustive short sequences over a 14-key alphabet, from empty and non-empty history
        let depth = match tier {
            Tier::Quick => 3,
            Tier::Thorough => 4,
        };
        let mut out = Vec::new();
        for history in [HISTORIES[0], HISTORIES[2]] {
            let n = ENUM_KEYS.len();
            for len in 1..=depth {
                let total = n.pow(len as u32);
                for code in 0..total {
                    let mut c = code;
                    let mut keys = Vec::with_capacity(len);
                    for _ in 0..len {
                        keys.push(ENUM_KEYS[c % n].clone());
                        c /= n;
                    }
                    out.push(scenario_json(history, &keys));
                }
            }
        }
        out
    }
    fn generate(&self, seed: u64, index: u64) -> J {
        let mut rng = Rng::new(run_seed(seed, ID, index));
        // (at fixed indices, so that a batch cut short by its time cap has still run some)
        if index % 150 == 7 {
            return generate_pty(&mut rng);
        }
        if index % 300 == 82 {
            // The program itself reads keys from the real terminal, between debugger prompts
            return J::obj()
                .set("history", J::Arr(vec![]))
                .set("keys", J::Arr(vec![]))
                .set("pty_program_input", rng.pick(&["é", "😀", "ü", "a", "Z", "→"]).to_string())
                .set("pty_minimal", rng.chance(2, 3));
        }
        let history = *rng.pick(&HISTORIES);
        let n = 1 + rng.usize_below(40);
        let mut keys: Vec<Key2> = (0..n).map(|_| random_key(&mut rng)).collect();
        // Faults placed where state exists: word motions right after a multi-byte character
        if rng.chance(1, 3) {
            let at = rng.usize_below(keys.len() + 1);
            let burst = [Key2::Char(*rng.pick(&['é', '😀'])), Key2::Char('w'), Key2::Char(' '), Key2::Char('q'), Key2::CtrlLeft, Key2::CtrlLeft, Key2::CtrlRight];
            for (i, k) in burst.iter().enumerate() {
                keys.insert((at + i).min(keys.len()), k.clone());
            }
        }
        let mut scenario = scenario_json(history, &keys);
        if rng.chance(1, 3) {
            // Through the real constructor: the history comes from (and goes to) a file
            scenario.put("history_file", true);
            if rng.chance(1, 6) {
                scenario.put("long_history", *rng.pick(&[999i64, 1000, 1001, 1005, 2500]));
            }
            if rng.chance(1, 2) {
                // The file as other sessions, crashes and editors leave it
                scenario.put("file_fault", *rng.pick(&["blank_lines", "invalid_utf8", "crlf", "no_trailing_newline", "directory"]));
                scenario.put("file_fault_at", rng.below(8) as i64);
            }
        }
        if rng.chance(1, 5) {
            // Phase 3: commands given with --command first, then the interactive terminal
            scenario.put("argument", *rng.pick(&["echo one\n\necho two", "echo one;;echo two", "echo a", "echo x\n", "\necho y"]));
        }
        scenario
    }

    fn execute(&self, _cap: &Capture, scenario: &J) -> Report {
        let mut report = Report::default();
        let mut history = scn::strings_from_json(scenario.get("history").unwrap_or(&J::Null));
        if let Some(n) = scenario.get_int("long_history") {
            // A long-lived history file
            history = (0..n).map(|i| format!("echo n{}", i)).collect();
        }
        let keys = keys_from_json(scenario.get("keys").unwrap_or(&J::Null));
        let use_file = scenario.get_bool("history_file").unwrap_or(false);
        let mut file = FileState::Unused;
        let mut candidates = vec![history.clone()];
        if use_file {
            report.hit("fault:pre_existing_history_file");
            let fault = scenario.get_str("file_fault").unwrap_or("");
            if !fault.is_empty() {
                report.hit(&format!("fault:history_file_{}", fault));
            }
            let built = history_file(&history, fault, scenario.get_int("file_fault_at").unwrap_or(0) as usize);
            file = built.0;
            candidates = built.1;
        }
        let obs = observe(&history, &keys, &file);
        let mut v: Vec<Violation> = Vec::new();
        let multibyte = |s: &str| if s.is_ascii() { "ascii" } else { "multibyte" };

        // ----- phase 1: after every key -----
        let mut model = Editor::new(history.clone());
        let mut sig: Vec<u8> = Vec::new();
        for (i, key) in keys.iter().enumerate() {
            let before_text: String = model.current().iter().collect();
            if let Some((at, msg)) = &obs.panic_at {
                if *at == i {
                    let short: String = msg.split(" @ ").next().unwrap_or("").chars().take(40).collect();
                    v.push(Violation::new(
                        ID,
                        format!("C20/panic/{}/{}/{}", key_name(key), multibyte(&before_text), short.replace(' ', "_")),
                        format!("key #{} ({}) on line {:?} cursor {} panicked: {}", i, key.name(), before_text, model.cursor, msg),
                    ));
                    break;
                }
            }
            let Some(step) = obs.steps.get(i) else { break };
            let adopt = if matches!(key, Key2::CtrlRight) { Some(step.cursor) } else { None };
            let submitted = model.key(key, adopt);
            let text: String = model.current().iter().collect();
            let chars = step.text.chars().count();
            sig.push(fnv(key_name(key).as_bytes()) as u8);
            if step.cursor > chars {
                v.push(Violation::new(
                    ID,
                    format!("C20/cursor-outside-line/{}/{}", key_name(key), multibyte(&step.text)),
                    format!("after key #{} ({}): cursor {} on a line of {} characters {:?}", i, key.name(), step.cursor, chars, step.text),
                ));
                break;
            }
            if step.text != text {
                v.push(Violation::new(
                    ID,
                    format!("C20/buffer/{}/{}", key_name(key), multibyte(&text)),
                    format!("after key #{} ({}): line {:?}, reference {:?}", i, key.name(), step.text, text),
                ));
                break;
            }
            if step.cursor != model.cursor {
                v.push(Violation::new(
                    ID,
                    format!("C20/cursor/{}/{}", key_name(key), multibyte(&text)),
                    format!("after key #{} ({}): cursor {}, reference {} on {:?}", i, key.name(), step.cursor, model.cursor, text),
                ));
                break;
            }
            if step.index != model.index || step.hist_len != model.history.len() {
                v.push(Violation::new(
                    ID,
                    format!("C20/history-focus/{}", key_name(key)),
                    format!("after key #{} ({}): history index {}/{}, reference {}/{}", i, key.name(), step.index, step.hist_len, model.index, model.history.len()),
                ));
                break;
            }
            if step.eol != submitted.is_some() {
                v.push(Violation::new(
                    ID,
                    "C20/enter/end-of-line".to_string(),
                    format!("after key #{}: real end-of-line {}, reference {:?}", i, step.eol, submitted),
                ));
                break;
            }
            if !text.is_ascii() {
                report.hit("probe:multibyte_on_line");
                if matches!(key, Key2::CtrlLeft | Key2::CtrlRight) {
                    report.hit("probe:word_motion_with_multibyte");
                }
            }
            if matches!(key, Key2::Up | Key2::Down) && !history.is_empty() {
                report.hit("probe:history_recall");
            }
            if submitted.is_some() {
                report.hit("probe:line_submitted");
                break;
            }
        }

        // ----- phase 2: the read() path -----
        if v.is_empty() && use_file && obs.read_panic.is_none() && !candidates.contains(&obs.history_loaded) {
            v.push(Violation::new(
                ID,
                format!("C20/history-file/loaded/{}", scenario.get_str("file_fault").unwrap_or("intact")),
                format!(
                    "history loaded from the file: {} entries {:?}.., expected {} entries (the file's intact lines)",
                    obs.history_loaded.len(),
                    obs.history_loaded.iter().take(4).collect::<Vec<_>>(),
                    candidates[0].len()
                ),
            ));
        }
        if v.is_empty() {
            let start = if use_file && obs.read_panic.is_none() { obs.history_loaded.clone() } else { history.clone() };
            let loaded = start.len();
            let mut model = Editor::new(start);
            let mut expected: Vec<String> = Vec::new();
            model.begin_line();
            let mut diverged = false;
            for key in &keys {
                // Word-motion adoption needs the real cursor, which phase 2 does not expose:
                // undetermined Ctrl+Right targets end the comparison of this run
                if matches!(key, Key2::CtrlRight) {
                    let cur = model.current();
                    let (_, determined) = crate::model::editor::word_next(&cur, model.cursor);
                    if !determined && model.cursor < cur.len() {
                        diverged = true;
                        break;
                    }
                }
                if let Some(line) = model.key(key, None) {
                    for piece in line.split(';') {
                        expected.push(piece.to_string());
                    }
                    model.submitted(&line);
                    model.begin_line();
                }
            }
            if let Some(msg) = &obs.read_panic {
                let short: String = msg.split(" @ ").next().unwrap_or("").chars().take(40).collect();
                v.push(Violation::new(
                    ID,
                    format!("C20/read/panic/{}", short.replace(' ', "_")),
                    format!("read() path panicked: {}", msg),
                ));
            } else if !diverged {
                if obs.commands != expected {
                    let at = (0..obs.commands.len().max(expected.len()))
                        .find(|i| obs.commands.get(*i) != expected.get(*i))
                        .unwrap_or(0);
                    v.push(Violation::new(
                        ID,
                        "C20/read/commands".to_string(),
                        format!("command #{} from read(): {:?}, reference {:?}", at, obs.commands.get(at), expected.get(at)),
                    ));
                } else if obs.history_after != model.history {
                    let tail = |h: &Vec<String>| h.iter().rev().take(4).rev().cloned().collect::<Vec<_>>();
                    v.push(Violation::new(
                        ID,
                        "C20/read/history".to_string(),
                        format!(
                            "history after the session ({} entries, ..{:?}), reference ({} entries, ..{:?})",
                            obs.history_after.len(),
                            tail(&obs.history_after),
                            model.history.len(),
                            tail(&model.history)
                        ),
                    ));
                } else if let (Some(after), FileState::Bytes(before)) = (&obs.file_after, &file) {
                    // Durable state: the file is only ever appended to, one line per new entry
                    let mut want = before.clone();
                    for line in &model.history[loaded..] {
                        want.extend_from_slice(line.as_bytes());
                        want.push(b'\n');
                    }
                    if !crate::world_pty::history_appended(before, after, &model.history[loaded..]) {
                        v.push(Violation::new(
                            ID,
                            "C20/read/history-file".to_string(),
                            format!(
                                "history file after the session: {} bytes, reference {} bytes (the old {} bytes plus {} appended entries)",
                                after.len(),
                                want.len(),
                                before.len(),
                                model.history.len() - loaded
                            ),
                        ));
                    }
                }
                report.count("probe:commands_read", expected.len() as u64);
            } else {
                report.hit("adopted:undetermined_word_motion_in_read_path");
            }
        }

        // ----- phase 3: a whole debugger session, --command first, then the terminal -----
        if v.is_empty() {
            if let Some(argument) = scenario.get_str("argument") {
                phase3(_cap, argument, &history, &mut report, &mut v, scenario);
            }
        }

        // ----- phase 4: the shipped binary on a real pseudo-terminal -----
        if v.is_empty() && scenario.get_bool("pty").unwrap_or(false) {
            phase4(&history, &keys, scenario, &mut report, &mut v);
        }
        if let Some(first) = scenario.get_str("pty_program_input") {
            phase5(first, scenario.get_bool("pty_minimal").unwrap_or(true), &mut report, &mut v);
        }

        report.nontrivial = keys.len() >= 2;
        sig.extend_from_slice(&(history.len() as u32).to_le_bytes());
        report.signature = fnv(&sig) ^ fnv(scenario.to_string().as_bytes());
        let mut h = Vec::new();
        for s in &obs.steps {
            h.extend_from_slice(s.text.as_bytes());
            h.extend_from_slice(&(s.cursor as u32).to_le_bytes());
        }
        for c in &obs.commands {
            h.extend_from_slice(c.as_bytes());
            h.push(0);
        }
        report.log_hash = fnv(&h);
        report.sim_ticks = keys.len() as u64;
        report.violations = v;
        report
    }

    fn shrink(&self, scenario: &J) -> Vec<J> {
        let keys = keys_from_json(scenario.get("keys").unwrap_or(&J::Null));
        let mut out = Vec::new();
        for k in scn::shrink_list(&keys) {
            out.push(scenario.clone().set("keys", keys_to_json(&k)));
        }
        let history = scn::strings_from_json(scenario.get("history").unwrap_or(&J::Null));
        for h in scn::shrink_list(&history) {
            out.push(scenario.clone().set("history", scn::strings_to_json(&h)));
        }
        // Simpler characters
        for i in 0..keys.len() {
            if let Key2::Char(c) = &keys[i] {
                if *c != 'a' && *c != 'é' {
                    let mut k = keys.clone();
                    k[i] = Key2::Char(if c.is_ascii() { 'a' } else { 'é' });
                    out.push(scenario.clone().set("keys", keys_to_json(&k)));
                }
            }
        }
        out
    }
    fn rule(&self) -> String {
        "Key histories over {letters, digit, space, +, ;, _, -, é (2 bytes), 😀 (4 bytes), Backspace, Delete, Left, Right, Ctrl+Left, Ctrl+Right, Up, Down, Enter} starting from one of four pre-existing histories (empty, one entry, three entries incl. multi-byte and `;`, entries with leading blanks). Fixed part: every sequence of length 1..3 (quick) / 1..4 (thorough) over a 14-key alphabet from the empty and a three-entry history (enumerated completely; this part is enumeration and is labelled so). Seeded part: 1..40 random keys, one third with a burst of word motions placed right after a multi-byte character. Phase 1 drives the real Terminal::handle_key key by key and compares line, cursor, focused history entry and end-of-line with RefEditor after every key (cursor must stay within 0..=characters of the line; no panic). Phase 2 feeds the same keys to the real Terminal::read() path on the simulated key device and compares the returned commands (lines split on `;`) and the history list. One third of the seeded runs build the terminal with the real constructor on a history file in a scratch cache directory: the file holds the starting history (one in six of these: 999..2500 lines), and half of them damage it the way real files get damaged (a blank line as two sessions appending at once leave it, a line of invalid UTF-8, CRLF endings, no final newline, a directory in its place); the loaded list must be the file's intact lines, and afterwards the file must be the old bytes plus one line per new history entry. One fifth of the seeded runs add phase 3, a whole debugger session on a one-instruction program with echo commands in --command (blank pieces included) followed by typed lines with history recall: the commands the debugger accepts must be the argument's, then exactly the reference editor's lines (commands from --command are not terminal history). One seeded run in 150 (phase 4, world B') types its keys - over an alphabet that cannot spell a command, so that every line is rejected without effect - into the shipped `lace debug` process on a real pseudo-terminal, paced by feedback (one newline on the piped stdout per Enter, raw mode observed on the master side before the next line is written): after every key the prompt redraw on the terminal must show the reference's line and cursor column, the process must end with status 0 at the final `exit`, and the history file must hold the old bytes plus the submitted lines. Non-trivial: at least 2 keys; distinct = distinct key history.".into()
    }
    fn assumptions(&self) -> Vec<String> {
        vec![
            "RefEditor follows the doc comments of terminal.rs: a history entry is copied before any modifying key (character, Backspace, Delete, Enter); a submitted line is appended to history unless equal to the last entry".into(),
            "word motion follows Vim `w`/`b` with classes whitespace / alphanumeric / other; where no next word exists the position chosen by the editor is accepted if it lies between the cursor and the end of the line (adopted)".into(),
            "there is no injected fault here beyond pre-existing history: this is seeded (and, for short sequences, exhaustive) exploration of event histories against a reference model; weakest fit for the technique family, stated in DESIGN.md".into(),
            "history entries are non-blank (the editor itself never stores a blank line); a blank line in the history file may be kept or dropped on load, but Enter never submits a blank line (doc comment of handle_key)".into(),
            "after a line of invalid UTF-8 in the history file the editor may keep the lines before it or all intact lines (both accepted)".into(),
        ]
    }
    fn components(&self) -> J {
        J::obj()
            .set(
                "real",
                J::Arr(
                    ["Terminal::handle_key", "find_word_next/find_word_back", "insert/remove_char_index", "update_next/get_current", "Terminal::read/read_line/read_line_raw/get_next_command", "history push rule", "TerminalHistory::new/read_file/push (history file)", "Stream::new + Debugger::run_command (phase 3)", "phase 4: the shipped binary - crossterm event decoding and term.rs key mapping, raw mode switching, print_prompt, history file"]
                        .iter()
                        .map(|s| J::from(*s))
                        .collect(),
                ),
            )
            .set(
                "stub",
                J::Arr(
                    ["crossterm event source (simulated key queue; the real one in phase 4)", "raw mode switching (no-op; real in phase 4)", "history file: real file I/O on a scratch XDG_CACHE_HOME for one third of the seeded runs, constructor without file otherwise", "prompt drawing goes to the captured stderr"]
                        .iter()
                        .map(|s| J::from(*s))
                        .collect(),
                ),
            )
    }
    fn expected_probes(&self) -> Vec<&'static str> {
        vec!["probe:multibyte_on_line", "probe:word_motion_with_multibyte", "probe:history_recall", "probe:line_submitted", "probe:commands_read", "probe:argument_then_terminal_session", "fault:real_pseudo_terminal_session", "fault:pre_existing_history_file"]
    }
}

/// A debugger session on a trivial program: `--command` holds echo commands (and blank pieces),
/// then lines are typed on the terminal. Commands given in the argument are not terminal
/// history; every submitted line must be the reference editor's.
fn phase3(cap: &Capture, argument: &str, history: &[String], report: &mut Report, v: &mut Vec<Violation>, scenario: &J) {
    use crate::world_a::{run_session, DebugCfg, End, Image, Session};
    use lace::verif::Event;
    // Typed part: history navigation, then an echo line, a few times; finally `exit`
    let mut rng = Rng::new(fnv(scenario.to_string().as_bytes()) | 1);
    // The history of this phase holds only commands without effect on the program (echo), so
    // that the expected sequence of commands is known without a debugger model
    let history: Vec<String> = if history.is_empty() {
        Vec::new()
    } else {
        let n = 1 + rng.usize_below(3);
        (0..n).map(|i| if i == 1 { "echo h1;echo é😀".to_string() } else { format!("echo h{}", i) }).collect()
    };
    let history = &history[..];
    let mut keys: Vec<Key2> = Vec::new();
    let rounds = 1 + rng.usize_below(3);
    for _ in 0..rounds {
        for _ in 0..rng.usize_below(4) {
            keys.push(if rng.chance(2, 3) { Key2::Up } else { Key2::Down });
        }
        if rng.chance(2, 3) {
            for c in format!("echo t{}", rng.below(10)).chars() {
                keys.push(Key2::Char(c));
            }
        }
        keys.push(Key2::Enter);
    }
    // Make sure the session ends: a fresh line holding `exit`
    for _ in 0..12 {
        keys.push(Key2::Down);
    }
    for _ in 0..40 {
        keys.push(Key2::Backspace);
    }
    for c in "exit".chars() {
        keys.push(Key2::Char(c));
    }
    keys.push(Key2::Enter);

    let session = Session {
        image: Image::Source("    halt\n".to_string()),
        stack: false,
        minimal: true,
        debug: Some(DebugCfg {
            arg: Some(argument.to_string()),
            terminal: Some((history.to_vec(), keys.clone())),
        }),
        stdin: Vec::new(),
        tty_input: None,
        fuel: 10_000,
        max_idle: 64,
        max_commands: 200,
        log_exec: false,
    };
    let outcome = run_session(cap, &session);
    report.hit("probe:argument_then_terminal_session");

    // Reference: argument pieces first (never history), then the typed lines
    let mut expected: Vec<String> = Vec::new();
    for piece in argument.split(|c| c == ';' || c == '\n') {
        if !piece.trim().is_empty() {
            expected.push(piece.trim().to_string());
        }
    }
    let mut model = Editor::new(history.to_vec());
    model.begin_line();
    for key in &keys {
        if let Some(line) = model.key(key, None) {
            for piece in line.split(';') {
                if !piece.trim().is_empty() {
                    expected.push(piece.trim().to_string());
                }
            }
            model.submitted(&line);
            model.begin_line();
        }
    }
    // What the debugger accepted or rejected, in order: an accepted command shows as the text
    // it quotes (the echoed string), or as a bare command when it quotes none (exit)
    let quoted = |text: &str| -> Option<String> {
        let start = text.find('"')?;
        let rest = &text[start + 1..];
        let mut out = String::new();
        let mut chars = rest.chars();
        while let Some(c) = chars.next() {
            match c {
                '"' => return Some(out),
                '\\' => {
                    if let Some(n) = chars.next() {
                        out.push(n);
                    }
                }
                other => out.push(other),
            }
        }
        None
    };
    let mut got: Vec<String> = Vec::new();
    for e in &outcome.events {
        match e {
            Event::Cmd(text) => got.push(match quoted(text) {
                Some(s) => format!("echo:{}", s),
                None => "<command>".to_string(),
            }),
            Event::CmdError(_) => got.push("<rejected>".to_string()),
            _ => {}
        }
    }
    let want: Vec<String> = expected
        .iter()
        .map(|line| {
            let mut words = line.splitn(2, ' ');
            match (words.next(), words.next()) {
                (Some("echo"), Some(rest)) if !rest.trim().is_empty() => format!("echo:{}", rest.trim()),
                (Some("exit"), None) => "<command>".to_string(),
                _ => "<rejected>".to_string(),
            }
        })
        .collect();
    // The session ends at the first `exit`
    let cut = want.iter().position(|w| w == "<command>").map(|i| i + 1).unwrap_or(want.len());
    let want = &want[..cut];
    if let End::Panic(msg) = &outcome.end {
        let short: String = msg.split(" @ ").next().unwrap_or("").chars().take(40).collect();
        v.push(Violation::new(
            ID,
            format!("C20/session/panic/{}", short.replace(' ', "_")),
            format!("session with --command {:?} then typed keys panicked: {}", argument, msg),
        ));
    } else if got != want {
        let at = (0..got.len().max(want.len())).find(|i| got.get(*i) != want.get(*i)).unwrap_or(0);
        v.push(Violation::new(
            ID,
            "C20/session/commands".to_string(),
            format!(
                "command #{} of the session: real {:?}, reference {:?} (--command {:?})",
                at,
                got.get(at),
                want.get(at),
                argument
            ),
        ));
    }
}

/// Characters that cannot form a command name: whatever is typed, every line is rejected by the
/// debugger without effect, so the session lasts until the final `exit`.
const PTY_CHARS: [char; 12] = ['9', '0', ' ', '+', ';', '_', 'é', '😀', '-', '\u{301}', 'ğ', '7'];
const PTY_HISTORIES: [&[&str]; 3] = [&[], &["9 9+ _"], &["é😀 -0;9", "7", "  9_0 ++ é"]];

fn generate_pty(rng: &mut Rng) -> J {
    let history = *rng.pick(&PTY_HISTORIES);
    let n = 1 + rng.usize_below(30);
    let keys: Vec<Key2> = (0..n)
        .map(|_| match rng.below(20) {
            0..=8 => Key2::Char(*rng.pick(&PTY_CHARS)),
            9 => Key2::Backspace,
            10 => Key2::Delete,
            11 => Key2::Left,
            12 => Key2::Right,
            13 | 14 => Key2::CtrlLeft,
            15 | 16 => Key2::CtrlRight,
            17 => Key2::Up,
            18 => Key2::Down,
            _ => Key2::Enter,
        })
        .collect();
    let mut scenario = scenario_json(history, &keys);
    scenario.put("pty", true);
    scenario.put("pty_minimal", rng.chance(2, 3));
    scenario.put("pty_history_file", !history.is_empty() || rng.coin());
    // Window width (0: the terminal reports no size) and typing ahead
    scenario.put("pty_cols", *rng.pick(&[0i64, 12, 20, 40, 80, 200]));
    scenario.put("pty_burst", format!("{:x}", if rng.coin() { rng.next_u64() } else { 0 }));
    // The environment of the session: the cache directory may be missing or impossible, the
    // history file may refuse to grow
    match rng.below(8) {
        0 => {
            scenario.put("pty_cache_dir", "missing");
        }
        1 => {
            scenario.put("pty_cache_dir", "under_file");
        }
        2 | 3 => {
            scenario.put("pty_fsize_slack", rng.below(24) as i64);
        }
        _ => {}
    }
    if scenario.get_str("pty_cache_dir").is_some() {
        // No cache directory, no history file: the session starts from the empty history
        scenario.put("history", J::Arr(vec![]));
        scenario.put("pty_history_file", false);
    }
    scenario
}

/// The same keys typed on a real pseudo-terminal into the shipped `lace debug`: crossterm's
/// decoding, raw mode, the prompt redraw after every key (line text and cursor column) and the
/// history file are the real ones.
fn phase4(history: &[String], keys: &[Key2], scenario: &J, report: &mut Report, v: &mut Vec<Violation>) {
    use crate::world_b::Scratch;
    use crate::world_pty::{key_bytes, redraws, Chunk};
    // Keys of the scenario, then a fresh line holding `exit`
    let mut all: Vec<Key2> = keys.to_vec();
    for _ in 0..history.len() + 8 {
        all.push(Key2::Down);
    }
    for _ in 0..48 {
        all.push(Key2::Right);
    }
    for _ in 0..48 {
        all.push(Key2::Backspace);
    }
    for c in "exit".chars() {
        all.push(Key2::Char(c));
    }
    all.push(Key2::Enter);

    // Reference: state before every key (what each redraw shows), chunks, final history
    let burst = u64::from_str_radix(scenario.get_str("pty_burst").unwrap_or("0"), 16).unwrap_or(0);
    let mut model = Editor::new(history.to_vec());
    model.begin_line();
    let mut expected_redraws: Vec<(String, usize)> = Vec::new();
    let mut chunks: Vec<Chunk> = Vec::new();
    let mut bytes: Vec<u8> = Vec::new();
    for key in &all {
        if matches!(key, Key2::CtrlRight) {
            let cur = model.current();
            let (_, determined) = crate::model::editor::word_next(&cur, model.cursor);
            if !determined && model.cursor < cur.len() {
                report.hit("adopted:undetermined_word_motion_in_pty_session");
                return;
            }
        }
        expected_redraws.push((model.current().iter().collect(), model.cursor));
        bytes.extend_from_slice(&key_bytes(key));
        let submitted = model.key(key, None);
        if matches!(key, Key2::Enter) {
            // The final `exit` line is always typed on its own
            let k = chunks.len() as u32;
            chunks.push(Chunk {
                bytes: std::mem::take(&mut bytes),
                submits: submitted.is_some(),
                with_next: burst >> (k % 60) & 1 == 1,
                program_keys: Vec::new(),
            });
        }
        if let Some(line) = submitted {
            model.submitted(&line);
            model.begin_line();
        }
    }

    let scratch = Scratch::new("c20pty");
    let asm = scratch.path("p.asm");
    if std::fs::write(&asm, "    halt\n").is_err() {
        return;
    }
    let with_file = scenario.get_bool("pty_history_file").unwrap_or(false);
    let mut before: Vec<u8> = Vec::new();
    for line in history {
        before.extend_from_slice(line.as_bytes());
        before.push(b'\n');
    }
    // Without a file the history is empty: such scenarios start from the empty history
    if !with_file && !history.is_empty() {
        return;
    }
    let minimal = scenario.get_bool("pty_minimal").unwrap_or(true);
    let cols = scenario.get_int("pty_cols").unwrap_or(200) as u16;
    // The last two chunks (the line being cleared, then `exit`) are never merged with others
    let n_chunks = chunks.len();
    for (i, c) in chunks.iter_mut().enumerate() {
        if i + 2 >= n_chunks {
            c.with_next = false;
        }
    }
    if chunks.iter().any(|c| c.with_next) {
        report.hit("fault:typed_ahead_in_one_write");
    }
    if cols > 0 && cols < 40 {
        report.hit("fault:narrow_terminal_window");
    }
    let env = crate::world_pty::PtyEnv {
        cache_dir: scenario.get_str("pty_cache_dir").unwrap_or("").to_string(),
        fsize_limit: scenario.get_int("pty_fsize_slack").filter(|_| with_file).map(|slack| before.len() as u64 + slack as u64),
    };
    if !env.cache_dir.is_empty() {
        report.hit(&format!("fault:cache_directory_{}", env.cache_dir));
    }
    if env.fsize_limit.is_some() {
        report.hit("fault:history_file_cannot_grow");
    }
    let run_pty = |scratch: &Scratch, asm: &std::path::Path, minimal: bool, cols: u16, before: Option<&[u8]>, chunks: &[Chunk]| {
        crate::world_pty::run_pty_in(scratch, asm, minimal, cols, before, chunks, &env)
    };
    let mut run = run_pty(&scratch, &asm, minimal, cols, if with_file { Some(&before) } else { None }, &chunks);
    if run.stalled.is_some() {
        // A stall is only a verdict if it repeats: the guard is the one place where the load of
        // the machine could show
        report.hit("probe:pty_session_repeated_after_stall");
        run = run_pty(&scratch, &asm, minimal, cols, if with_file { Some(&before) } else { None }, &chunks);
    }
    report.hit("fault:real_pseudo_terminal_session");
    report.count("processes", 1);
    if let Some(e) = &run.spawn_error {
        // No pty available here: not a verdict about lace
        report.hit(&format!("probe:pty_unavailable({})", e));
        return;
    }
    let shown = |r: &[(String, usize)]| r.iter().rev().take(3).rev().cloned().collect::<Vec<_>>();
    if let Some(what) = &run.stalled {
        v.push(Violation::new(
            ID,
            "C20/pty/stalled".to_string(),
            format!("session on the pseudo-terminal did not react: waiting for {}; last redraws {:?}", what, shown(&redraws(&run.tty))),
        ));
        return;
    }
    if run.status != Some(0) {
        let text = String::from_utf8_lossy(&run.tty);
        let panic = text.find("panicked at").map(|at| text[at..].chars().take(160).collect::<String>());
        v.push(Violation::new(
            ID,
            format!("C20/pty/status={:?}{}", run.status, if panic.is_some() { "/panic" } else { "" }),
            format!("session on the pseudo-terminal ended with {:?} {}", run.status, panic.unwrap_or_default()),
        ));
        return;
    }
    let got = crate::world_pty::distinct(&redraws(&run.tty));
    let expected_redraws = crate::world_pty::distinct(&expected_redraws);
    if got != expected_redraws {
        let at = (0..got.len().max(expected_redraws.len())).find(|i| got.get(*i) != expected_redraws.get(*i)).unwrap_or(0);
        let what = match (got.get(at), expected_redraws.get(at)) {
            (Some(g), Some(e)) if g.0 != e.0 => "line",
            (Some(_), Some(_)) => "cursor-column",
            _ => "count",
        };
        v.push(Violation::new(
            ID,
            format!("C20/pty/redraw/{}", what),
            format!(
                "distinct prompt redraw #{} on the pseudo-terminal: real {:?}, reference {:?}",
                at,
                got.get(at),
                expected_redraws.get(at)
            ),
        ));
        return;
    }
    let mut want = before.clone();
    for line in &model.history[history.len()..] {
        want.extend_from_slice(line.as_bytes());
        want.push(b'\n');
    }
    if env.fsize_limit.is_some() {
        // Appends beyond the limit fail (and may be cut short): the file is not judged, what
        // the editor remembered is (the redraws above)
        return;
    }
    if !env.cache_dir.is_empty() {
        // No directory: whether the editor works without a file or creates what is missing is
        // its business; the session itself (above) is what is judged
        return;
    }
    let appended = run.history_after.as_deref().map(|after| crate::world_pty::history_appended(&before, after, &model.history[history.len()..]));
    if appended != Some(true) {
        v.push(Violation::new(
            ID,
            "C20/pty/history-file".to_string(),
            format!(
                "history file after the pseudo-terminal session: {:?}, reference {:?}",
                run.history_after.as_ref().map(|b| String::from_utf8_lossy(b).into_owned()),
                String::from_utf8_lossy(&want)
            ),
        ));
    }
}

/// A program that reads three keys (GETC, OUT each time) is stepped through on a real
/// pseudo-terminal: between two prompts of the line editor the program itself switches the
/// terminal to raw mode and back for every key it reads. A multi-byte character typed at the
/// first GETC serves the following ones too (one marker per byte, as on piped input).
fn phase5(first: &str, minimal: bool, report: &mut Report, v: &mut Vec<Violation>) {
    use crate::world_b::Scratch;
    use crate::world_pty::{redraws, run_pty, Chunk};
    let scratch = Scratch::new("c20in");
    let asm = scratch.path("p.asm");
    if std::fs::write(&asm, "    getc\n    out\n    getc\n    out\n    getc\n    out\n    halt\n").is_err() {
        return;
    }
    // Which keys the three GETCs need, and what OUT prints for each
    let mut keys: Vec<char> = vec![first.chars().next().unwrap_or('a'), 'k', 'Q'];
    keys.reverse();
    let mut buffered = 0usize;
    let mut chunks: Vec<Chunk> = Vec::new();
    let mut expected_out: Vec<u8> = Vec::new();
    for line in 0..3usize {
        let mut program_keys = Vec::new();
        let shown: char = if buffered > 0 {
            buffered -= 1;
            '\u{fd}'
        } else {
            let key = keys.pop().unwrap_or('x');
            let mut buf = [0u8; 4];
            program_keys.push(key.encode_utf8(&mut buf).as_bytes().to_vec());
            if key.is_ascii() {
                key
            } else {
                buffered = key.len_utf8() - 1;
                // U+FFFD in R0, OUT prints its low byte
                '\u{fd}'
            }
        };
        expected_out.push(b'\n');
        let mut buf = [0u8; 4];
        expected_out.extend_from_slice(shown.encode_utf8(&mut buf).as_bytes());
        chunks.push(Chunk {
            bytes: b"si 2\r".to_vec(),
            submits: true,
            with_next: false,
            program_keys,
        });
    }
    expected_out.push(b'\n');
    chunks.push(Chunk {
        bytes: b"exit\r".to_vec(),
        submits: true,
        with_next: false,
        program_keys: Vec::new(),
    });
    let mut run = run_pty(&scratch, &asm, minimal, 80, None, &chunks);
    if run.stalled.is_some() {
        report.hit("probe:pty_session_repeated_after_stall");
        run = run_pty(&scratch, &asm, minimal, 80, None, &chunks);
    }
    report.hit("fault:program_input_typed_on_a_real_terminal");
    report.count("processes", 1);
    if run.spawn_error.is_some() {
        return;
    }
    // (whether the line feed that ends a typed line goes to standard output or to the terminal
    // is not the program's output)
    let without_line_feeds = |out: &[u8]| -> Vec<u8> { out.iter().copied().filter(|b| *b != b'\n').collect() };
    let after_marker = |out: &[u8]| -> Vec<u8> {
        let marker = &crate::world_b::framing().before;
        out.windows(marker.len()).position(|w| w == &marker[..]).map(|at| out[at + marker.len()..].to_vec()).unwrap_or_default()
    };
    if let Some(what) = &run.stalled {
        v.push(Violation::new(
            ID,
            "C20/pty-input/stalled".to_string(),
            format!("program input typed on the pseudo-terminal (first key {:?}): no reaction while waiting for {}", first, what),
        ));
    } else if run.status != Some(0) {
        let text = String::from_utf8_lossy(&run.tty);
        let panic = text.find("panicked at").map(|at| text[at..].chars().take(200).collect::<String>());
        v.push(Violation::new(
            ID,
            format!("C20/pty-input/status={:?}{}", run.status, if panic.is_some() { "/panic" } else { "" }),
            format!("program input typed on the pseudo-terminal (first key {:?}): session ended with {:?} {}", first, run.status, panic.unwrap_or_default()),
        ));
    } else if !without_line_feeds(&after_marker(&run.stdout)).starts_with(&without_line_feeds(&expected_out)) {
        v.push(Violation::new(
            ID,
            "C20/pty-input/output".to_string(),
            format!(
                "program input typed on the pseudo-terminal (first key {:?}): output {:?}, expected to start with {:?}",
                first,
                String::from_utf8_lossy(&after_marker(&run.stdout)),
                String::from_utf8_lossy(&expected_out)
            ),
        ));
    } else if redraws(&run.tty).len() < 20 {
        v.push(Violation::new(
            ID,
            "C20/pty-input/redraws".to_string(),
            format!("only {} prompt redraws for 20 typed keys", redraws(&run.tty).len()),
        ));
    }
}
