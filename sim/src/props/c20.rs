//! C20 — The interactive line editor keeps its cursor inside the line (world D).
//!
//! The real `Terminal` is driven key by key (buffer and cursor inspected after every key) and
//! through its real `read()` path on the simulated key device (submitted lines, command
//! splitting, history recall); RefEditor is the oracle.

use std::panic::{catch_unwind, AssertUnwindSafe};

use lace::debugger::VerifTerminal;
use lace::verif::{self, Sim, SimStop, Transport};

use crate::capture::Capture;
use crate::engine::{Check, Report, Tier, Violation};
use crate::json::J;
use crate::model::editor::Editor;
use crate::rng::{fnv, run_seed, Rng};
use crate::scn;
use crate::world_a::{take_panic_message, Key2};

pub struct C20;
const ID: &str = "C20";

#[derive(Clone, Debug)]
struct Step {
    text: String,
    cursor: usize,
    index: usize,
    hist_len: usize,
    eol: bool,
}

#[derive(Clone, Debug, Default)]
struct Observed {
    /// State after each key of phase 1 (until the first end of line or a panic).
    steps: Vec<Step>,
    panic_at: Option<(usize, String)>,
    /// Commands returned by the real `read()` path (phase 2) and how it ended.
    commands: Vec<String>,
    history_after: Vec<String>,
    read_panic: Option<String>,
}

fn observe(history: &[String], keys: &[Key2]) -> Observed {
    let history = history.to_vec();
    let keys = keys.to_vec();
    let handle = std::thread::Builder::new()
        .name("sim-editor".into())
        .stack_size(4 << 20)
        .spawn(move || {
            let mut obs = Observed::default();
            // Phase 1: key by key
            let mut term = VerifTerminal::verif_new(history.clone());
            for (i, key) in keys.iter().enumerate() {
                let result = catch_unwind(AssertUnwindSafe(|| term.verif_key(key.to_key())));
                match result {
                    Ok(eol) => {
                        let viewed = catch_unwind(AssertUnwindSafe(|| term.verif_view()));
                        match viewed {
                            Ok((text, cursor, index, hist_len)) => obs.steps.push(Step {
                                text,
                                cursor,
                                index,
                                hist_len,
                                eol,
                            }),
                            Err(_) => {
                                obs.panic_at = Some((i, take_panic_message().unwrap_or_default()));
                                break;
                            }
                        }
                        if eol {
                            break;
                        }
                    }
                    Err(_) => {
                        obs.panic_at = Some((i, take_panic_message().unwrap_or_default()));
                        break;
                    }
                }
            }
            // Phase 2: the real read() path on the simulated key device
            let mut sim = Sim::default();
            sim.transport = Some(Transport::Terminal(history.clone()));
            sim.keys = keys.iter().map(|k| k.to_key()).collect();
            verif::arm(sim);
            let mut term2 = VerifTerminal::verif_new(history.clone());
            loop {
                let result = catch_unwind(AssertUnwindSafe(|| term2.verif_read()));
                match result {
                    Ok(cmd) => obs.commands.push(cmd),
                    Err(payload) => {
                        if payload.downcast_ref::<SimStop>().is_none() {
                            obs.read_panic = Some(take_panic_message().unwrap_or_default());
                        }
                        break;
                    }
                }
                if obs.commands.len() > 10_000 {
                    break;
                }
            }
            obs.history_after = catch_unwind(AssertUnwindSafe(|| term2.verif_history())).unwrap_or_default();
            verif::disarm();
            obs
        })
        .expect("spawn");
    handle.join().unwrap_or_default()
}

const CHARS: [char; 12] = ['a', 'b', 'Z', '9', ' ', '+', ';', '_', 'é', '😀', '-', 'x'];

fn random_key(rng: &mut Rng) -> Key2 {
    match rng.below(20) {
        0..=8 => Key2::Char(*rng.pick(&CHARS)),
        9 => Key2::Backspace,
        10 => Key2::Delete,
        11 => Key2::Left,
        12 => Key2::Right,
        13 | 14 => Key2::CtrlLeft,
        15 | 16 => Key2::CtrlRight,
        17 => Key2::Up,
        18 => Key2::Down,
        _ => Key2::Enter,
    }
}

fn key_name(k: &Key2) -> &'static str {
    match k {
        Key2::Enter => "enter",
        Key2::Backspace => "backspace",
        Key2::Delete => "delete",
        Key2::Left => "left",
        Key2::Right => "right",
        Key2::Up => "up",
        Key2::Down => "down",
        Key2::CtrlLeft => "ctrl-left",
        Key2::CtrlRight => "ctrl-right",
        Key2::Char(_) => "char",
    }
}

fn keys_to_json(keys: &[Key2]) -> J {
    J::Arr(keys.iter().map(|k| J::from(k.name())).collect())
}

fn keys_from_json(j: &J) -> Vec<Key2> {
    j.arr()
        .map(|a| a.iter().filter_map(|k| k.str()).filter_map(Key2::from_name).collect())
        .unwrap_or_default()
}

const HISTORIES: [&[&str]; 4] = [&[], &["abc def"], &["step", "é😀 x+1", "b a x3000;c"], &["a", "a b", "  lead"]];

const ENUM_KEYS: [Key2; 14] = [
    Key2::Char('a'),
    Key2::Char(' '),
    Key2::Char('+'),
    Key2::Char('é'),
    Key2::Char('😀'),
    Key2::Backspace,
    Key2::Delete,
    Key2::Left,
    Key2::Right,
    Key2::CtrlLeft,
    Key2::CtrlRight,
    Key2::Up,
    Key2::Down,
    Key2::Enter,
];

fn scenario_json(history: &[&str], keys: &[Key2]) -> J {
    J::obj()
        .set("history", scn::strings_to_json(&history.iter().map(|s| s.to_string()).collect::<Vec<_>>()))
        .set("keys", keys_to_json(keys))
}

impl Check for C20 {
    fn id(&self) -> &'static str {
        ID
    }
    fn world(&self) -> &'static str {
        "D (real Terminal line editor on a simulated key device, no history file)"
    }
    fn runs(&self, tier: Tier) -> u64 {
        match tier {
            Tier::Quick => 60_000,
            Tier::Thorough => 4_000_000,
        }
    }
    fn fixed_scenarios(&self, tier: Tier) -> Vec<J> {
        // Exhaustive short sequences over a 14-key alphabet, from empty and non-empty history
        let depth = match tier {
            Tier::Quick => 3,
            Tier::Thorough => 4,
        };
        let mut out = Vec::new();
        for history in [HISTORIES[0], HISTORIES[2]] {
            let n = ENUM_KEYS.len();
            for len in 1..=depth {
                let total = n.pow(len as u32);
                for code in 0..total {
                    let mut c = code;
                    let mut keys = Vec::with_capacity(len);
                    for _ in 0..len {
                        keys.push(ENUM_KEYS[c % n].clone());
                        c /= n;
                    }
                    out.push(scenario_json(history, &keys));
                }
            }
        }
        out
    }
    fn generate(&self, seed: u64, index: u64) -> J {
        let mut rng = Rng::new(run_seed(seed, ID, index));
        let history = *rng.pick(&HISTORIES);
        let n = 1 + rng.usize_below(40);
        let mut keys: Vec<Key2> = (0..n).map(|_| random_key(&mut rng)).collect();
        // Faults placed where state exists: word motions right after a multi-byte character
        if rng.chance(1, 3) {
            let at = rng.usize_below(keys.len() + 1);
            let burst = [Key2::Char(*rng.pick(&['é', '😀'])), Key2::Char('w'), Key2::Char(' '), Key2::Char('q'), Key2::CtrlLeft, Key2::CtrlLeft, Key2::CtrlRight];
            for (i, k) in burst.iter().enumerate() {
                keys.insert((at + i).min(keys.len()), k.clone());
            }
        }
        scenario_json(history, &keys)
    }

    fn execute(&self, _cap: &Capture, scenario: &J) -> Report {
        let mut report = Report::default();
        let history = scn::strings_from_json(scenario.get("history").unwrap_or(&J::Null));
        let keys = keys_from_json(scenario.get("keys").unwrap_or(&J::Null));
        let obs = observe(&history, &keys);
        let mut v: Vec<Violation> = Vec::new();
        let multibyte = |s: &str| if s.is_ascii() { "ascii" } else { "multibyte" };

        // ----- phase 1: after every key -----
        let mut model = Editor::new(history.clone());
        let mut sig: Vec<u8> = Vec::new();
        for (i, key) in keys.iter().enumerate() {
            let before_text: String = model.current().iter().collect();
            if let Some((at, msg)) = &obs.panic_at {
                if *at == i {
                    let short: String = msg.split(" @ ").next().unwrap_or("").chars().take(40).collect();
                    v.push(Violation::new(
                        ID,
                        format!("C20/panic/{}/{}/{}", key_name(key), multibyte(&before_text), short.replace(' ', "_")),
                        format!("key #{} ({}) on line {:?} cursor {} panicked: {}", i, key.name(), before_text, model.cursor, msg),
                    ));
                    break;
                }
            }
            let Some(step) = obs.steps.get(i) else { break };
            let adopt = if matches!(key, Key2::CtrlRight) { Some(step.cursor) } else { None };
            let submitted = model.key(key, adopt);
            let text: String = model.current().iter().collect();
            let chars = step.text.chars().count();
            sig.push(fnv(key_name(key).as_bytes()) as u8);
            if step.cursor > chars {
                v.push(Violation::new(
                    ID,
                    format!("C20/cursor-outside-line/{}/{}", key_name(key), multibyte(&step.text)),
                    format!("after key #{} ({}): cursor {} on a line of {} characters {:?}", i, key.name(), step.cursor, chars, step.text),
                ));
                break;
            }
            if step.text != text {
                v.push(Violation::new(
                    ID,
                    format!("C20/buffer/{}/{}", key_name(key), multibyte(&text)),
                    format!("after key #{} ({}): line {:?}, reference {:?}", i, key.name(), step.text, text),
                ));
                break;
            }
            if step.cursor != model.cursor {
                v.push(Violation::new(
                    ID,
                    format!("C20/cursor/{}/{}", key_name(key), multibyte(&text)),
                    format!("after key #{} ({}): cursor {}, reference {} on {:?}", i, key.name(), step.cursor, model.cursor, text),
                ));
                break;
            }
            if step.index != model.index || step.hist_len != model.history.len() {
                v.push(Violation::new(
                    ID,
                    format!("C20/history-focus/{}", key_name(key)),
                    format!("after key #{} ({}): history index {}/{}, reference {}/{}", i, key.name(), step.index, step.hist_len, model.index, model.history.len()),
                ));
                break;
            }
            if step.eol != submitted.is_some() {
                v.push(Violation::new(
                    ID,
                    "C20/enter/end-of-line".to_string(),
                    format!("after key #{}: real end-of-line {}, reference {:?}", i, step.eol, submitted),
                ));
                break;
            }
            if !text.is_ascii() {
                report.hit("probe:multibyte_on_line");
                if matches!(key, Key2::CtrlLeft | Key2::CtrlRight) {
                    report.hit("probe:word_motion_with_multibyte");
                }
            }
            if matches!(key, Key2::Up | Key2::Down) && !history.is_empty() {
                report.hit("probe:history_recall");
            }
            if submitted.is_some() {
                report.hit("probe:line_submitted");
                break;
            }
        }

        // ----- phase 2: the read() path -----
        if v.is_empty() {
            let mut model = Editor::new(history.clone());
            let mut expected: Vec<String> = Vec::new();
            model.begin_line();
            let mut diverged = false;
            for key in &keys {
                // Word-motion adoption needs the real cursor, which phase 2 does not expose:
                // undetermined Ctrl+Right targets end the comparison of this run
                if matches!(key, Key2::CtrlRight) {
                    let cur = model.current();
                    let (_, determined) = crate::model::editor::word_next(&cur, model.cursor);
                    if !determined && model.cursor < cur.len() {
                        diverged = true;
                        break;
                    }
                }
                if let Some(line) = model.key(key, None) {
                    for piece in line.split(';') {
                        expected.push(piece.to_string());
                    }
                    model.submitted(&line);
                    model.begin_line();
                }
            }
            if let Some(msg) = &obs.read_panic {
                let short: String = msg.split(" @ ").next().unwrap_or("").chars().take(40).collect();
                v.push(Violation::new(
                    ID,
                    format!("C20/read/panic/{}", short.replace(' ', "_")),
                    format!("read() path panicked: {}", msg),
                ));
            } else if !diverged {
                if obs.commands != expected {
                    let at = (0..obs.commands.len().max(expected.len()))
                        .find(|i| obs.commands.get(*i) != expected.get(*i))
                        .unwrap_or(0);
                    v.push(Violation::new(
                        ID,
                        "C20/read/commands".to_string(),
                        format!("command #{} from read(): {:?}, reference {:?}", at, obs.commands.get(at), expected.get(at)),
                    ));
                } else if obs.history_after != model.history {
                    v.push(Violation::new(
                        ID,
                        "C20/read/history".to_string(),
                        format!("history after the session: {:?}, reference {:?}", obs.history_after, model.history),
                    ));
                }
                report.count("probe:commands_read", expected.len() as u64);
            } else {
                report.hit("adopted:undetermined_word_motion_in_read_path");
            }
        }

        report.nontrivial = keys.len() >= 2;
        sig.extend_from_slice(&(history.len() as u32).to_le_bytes());
        report.signature = fnv(&sig) ^ fnv(scenario.to_string().as_bytes());
        let mut h = Vec::new();
        for s in &obs.steps {
            h.extend_from_slice(s.text.as_bytes());
            h.extend_from_slice(&(s.cursor as u32).to_le_bytes());
        }
        for c in &obs.commands {
            h.extend_from_slice(c.as_bytes());
            h.push(0);
        }
        report.log_hash = fnv(&h);
        report.sim_ticks = keys.len() as u64;
        report.violations = v;
        report
    }

    fn shrink(&self, scenario: &J) -> Vec<J> {
        let keys = keys_from_json(scenario.get("keys").unwrap_or(&J::Null));
        let mut out = Vec::new();
        for k in scn::shrink_list(&keys) {
            out.push(scenario.clone().set("keys", keys_to_json(&k)));
        }
        let history = scn::strings_from_json(scenario.get("history").unwrap_or(&J::Null));
        for h in scn::shrink_list(&history) {
            out.push(scenario.clone().set("history", scn::strings_to_json(&h)));
        }
        // Simpler characters
        for i in 0..keys.len() {
            if let Key2::Char(c) = &keys[i] {
                if *c != 'a' && *c != 'é' {
                    let mut k = keys.clone();
                    k[i] = Key2::Char(if c.is_ascii() { 'a' } else { 'é' });
                    out.push(scenario.clone().set("keys", keys_to_json(&k)));
                }
            }
        }
        out
    }
    fn rule(&self) -> String {
        "Key histories over {letters, digit, space, +, ;, _, -, é (2 bytes), 😀 (4 bytes), Backspace, Delete, Left, Right, Ctrl+Left, Ctrl+Right, Up, Down, Enter} starting from one of four pre-existing histories (empty, one entry, three entries incl. multi-byte and `;`, entries with leading blanks). Fixed part: every sequence of length 1..3 (quick) / 1..4 (thorough) over a 14-key alphabet from the empty and a three-entry history (enumerated completely; this part is enumeration and is labelled so). Seeded part: 1..40 random keys, one third with a burst of word motions placed right after a multi-byte character. Phase 1 drives the real Terminal::handle_key key by key and compares line, cursor, focused history entry and end-of-line with RefEditor after every key (cursor must stay within 0..=characters of the line; no panic). Phase 2 feeds the same keys to the real Terminal::read() path on the simulated key device and compares the returned commands (lines split on `;`) and the history list. Non-trivial: at least 2 keys; distinct = distinct key history.".into()
    }
    fn assumptions(&self) -> Vec<String> {
        vec![
            "RefEditor follows the doc comments of terminal.rs: a history entry is copied before any modifying key (character, Backspace, Delete, Enter); a submitted line is appended to history unless equal to the last entry".into(),
            "word motion follows Vim `w`/`b` with classes whitespace / alphanumeric / other; where no next word exists the position chosen by the editor is accepted if it lies between the cursor and the end of the line (adopted)".into(),
            "there is no injected fault here beyond pre-existing history: this is seeded (and, for short sequences, exhaustive) exploration of event histories against a reference model; weakest fit for the technique family, stated in DESIGN.md".into(),
            "history entries are non-blank (the editor itself never stores a blank line)".into(),
        ]
    }
    fn components(&self) -> J {
        J::obj()
            .set(
                "real",
                J::Arr(
                    ["Terminal::handle_key", "find_word_next/find_word_back", "insert/remove_char_index", "update_next/get_current", "Terminal::read/read_line/read_line_raw/get_next_command", "history push rule"]
                        .iter()
                        .map(|s| J::from(*s))
                        .collect(),
                ),
            )
            .set(
                "stub",
                J::Arr(
                    ["crossterm event source (simulated key queue)", "raw mode switching (no-op)", "history file (absent: constructor without file)", "prompt drawing goes to the captured stderr"]
                        .iter()
                        .map(|s| J::from(*s))
                        .collect(),
                ),
            )
    }
    fn expected_probes(&self) -> Vec<&'static str> {
        vec!["probe:multibyte_on_line", "probe:word_motion_with_multibyte", "probe:history_recall", "probe:line_submitted", "probe:commands_read"]
    }
}
