//! The world-A debugger-session checks: C09, C10, C11, C12, C13, C15, C16 (and the base of C14).
//! They share the session simulator and the lockstep oracle (`session.rs`) and differ in
//! workload (program families, command mix, faults) and in which oracle's verdict they own.

use crate::capture::Capture;
use crate::engine::{Check, Report, Tier, Violation};
use crate::gen::{self, GenOpts};
use crate::gen_script::{gen_script, Ctx, EndStyle, Mix};
use crate::json::J;
use crate::rng::{run_seed, Rng};
use crate::scn;
use crate::script::{Cmd, Item};
use crate::session::{check_session, DebugScenario, Transport};

pub struct DebugCheck {
    pub id: &'static str,
    pub mix: fn() -> Mix,
    pub quick_runs: u64,
    pub thorough_runs: u64,
    pub exception_endings_pct: u64,
    pub breaks_pct: u64,
    pub max_script: usize,
    pub rule: &'static str,
    pub assumptions: &'static [&'static str],
    pub probes: &'static [&'static str],
    /// Deterministic scenarios executed before the seeded ones (enumerations).
    pub fixed: fn(Tier) -> Vec<J>,
}

fn no_fixed(_tier: Tier) -> Vec<J> {
    Vec::new()
}

/// C13's address-space half as far as this family goes: one session per target address
/// (every address in the thorough tier, every 251st in the quick tier), in the three spellings,
/// issuing move, goto and break add at it and ending with `exit`.
fn c13_address_sweep(tier: Tier) -> Vec<J> {
    use crate::gen::{Program, Stmt};
    use crate::script::{Loc, Target};
    let stmt = |labels: &[&str], text: &str| Stmt {
        labels: labels.iter().map(|l| l.to_string()).collect(),
        text: text.to_string(),
        words: 1,
        breaks: 0,
    };
    let stride = match tier {
        Tier::Quick => 251,
        Tier::Thorough => 1,
    };
    let mut out = Vec::new();
    for (k, orig) in [(0usize, 0x3000u16), (1, 0x0200), (2, 0x7FF8)] {
        let program = Program {
            orig: Some(orig),
            stmts: vec![stmt(&[], "and r0, r0, #0"), stmt(&["Mark_1"], "add r0, r0, #1"), stmt(&[], "halt"), stmt(&["Cell_2"], ".fill x1234")],
            trailing_breaks: 0,
            stack: false,
            uses_input: false,
            layout_seed: 0,
            features: Vec::new(),
        };
        let mut a: u32 = k as u32 * 83; // the three origins sample interleaved residues
        while a < 0x10000 {
            let addr = a as i64;
            let form = (a / stride as u32 + k as u32) % 3;
            let loc = match form {
                0 => Loc::Abs(addr),
                1 => Loc::Label {
                    name: "Mark_1".to_string(),
                    off: addr - (orig as i64 + 1),
                },
                _ => Loc::Pc(addr - orig as i64),
            };
            let item = |cmd: Cmd| Item { cmd, spell: (a as u64).wrapping_mul(0x9E37_79B9_7F4A_7C15) | 1 };
            let script = vec![
                item(Cmd::Move(Target::Mem(loc.clone()), 0x5A5A)),
                item(Cmd::BreakAdd(loc.clone())),
                item(Cmd::Goto(loc.clone())),
                item(Cmd::BreakRemove(loc)),
                item(Cmd::Exit),
            ];
            out.push(
                DebugScenario {
                    program: program.clone(),
                    stack: false,
                    minimal: true,
                    script,
                    transport: Transport::Arg,
                    sep_seed: 0,
                    input: Vec::new(),
                }
                .to_json(),
            );
            a += if tier == Tier::Thorough { 3 } else { stride as u32 };
        }
    }
    out
}

pub fn shrink_debug(scn: &DebugScenario) -> Vec<DebugScenario> {
    let mut out = Vec::new();
    for script in scn::shrink_list(&scn.script) {
        let mut s = scn.clone();
        s.script = script;
        out.push(s);
    }
    for program in scn::shrink_program(&scn.program) {
        let mut s = scn.clone();
        s.program = program;
        out.push(s);
    }
    if scn.transport != Transport::Arg {
        let mut s = scn.clone();
        s.transport = Transport::Arg;
        out.push(s);
    }
    if scn.sep_seed != 0 {
        let mut s = scn.clone();
        s.sep_seed = 0;
        out.push(s);
    }
    for input in scn::shrink_list(&scn.input) {
        let mut s = scn.clone();
        s.input = input;
        out.push(s);
    }
    if !scn.minimal {
        let mut s = scn.clone();
        s.minimal = true;
        out.push(s);
    }
    // Simpler commands: counts towards 1, plain spellings
    for i in 0..scn.script.len() {
        if let Cmd::StepInto(Some(c)) = &scn.script[i].cmd {
            if *c > 1 {
                for smaller in [1, c / 2, c - 1] {
                    let mut s = scn.clone();
                    s.script[i].cmd = Cmd::StepInto(Some(smaller));
                    out.push(s);
                }
            }
        }
        if scn.script[i].spell != 0 {
            let mut s = scn.clone();
            s.script[i] = Item {
                cmd: scn.script[i].cmd.clone(),
                spell: 0,
            };
            out.push(s);
        }
    }
    out
}

impl DebugCheck {
    pub fn scenario(&self, seed: u64, index: u64) -> DebugScenario {
        let mut rng = Rng::new(run_seed(seed, self.id, index));
        let minimal = rng.chance(2, 3);
        let stack = rng.coin();
        // Programs may read input only when the script cannot: all of it in --command, ending
        // with an explicit quit/exit (decided below, the generator needs to know now)
        let with_input = rng.chance(1, 5);
        let opts = GenOpts {
            stack,
            minimal,
            allow_input: with_input,
            allow_exception_endings: rng.below(100) < self.exception_endings_pct,
            allow_breaks: rng.below(100) < self.breaks_pct,
            max_blocks: 1 + rng.usize_below(6),
            high_origin: rng.chance(1, 8),
            tail_beyond_user: rng.chance(1, 30),
        };
        let program = gen::generate(&mut rng, &opts);
        let mix = (self.mix)();
        let ctx = Ctx::new(&program, stack, minimal);
        let end = if with_input {
            if rng.chance(3, 4) {
                EndStyle::Quit
            } else {
                EndStyle::Exit
            }
        } else {
            match rng.below(10) {
                0..=4 => EndStyle::Eof,
                5..=7 => EndStyle::Quit,
                _ => EndStyle::Exit,
            }
        };
        let script = gen_script(&mut rng, &ctx, &mix, self.max_script, end);
        let transport = if with_input {
            if end == EndStyle::Quit && rng.chance(1, 3) {
                // Program input follows the script on the same stream
                Transport::Stdin
            } else {
                Transport::Arg
            }
        } else {
            match rng.below(20) {
                0..=8 => Transport::Arg,
                9..=14 => Transport::Stdin,
                15..=17 => Transport::Split(rng.usize_below(script.len() + 1)),
                // Typed on the simulated terminal (which has no end of input)
                _ if end != EndStyle::Eof => Transport::Terminal,
                _ => Transport::Stdin,
            }
        };
        // A control character cannot be typed into the line editor
        let transport = if transport == Transport::Terminal && script.iter().any(|i| i.render().chars().any(|c| (c as u32) < 0x20)) {
            Transport::Arg
        } else {
            transport
        };
        let input: Vec<u8> = if with_input {
            let n = rng.usize_below(8);
            (0..n)
                .map(|_| match rng.below(8) {
                    0 => 0x80 + rng.below(0x80) as u8,
                    1 => b'\n',
                    _ => 0x20 + rng.below(0x5f) as u8,
                })
                .collect()
        } else {
            Vec::new()
        };
        let sep_seed = if rng.chance(1, 4) { 0 } else { rng.next_u64() | 1 };
        DebugScenario {
            program,
            stack,
            minimal,
            script,
            transport,
            sep_seed,
            input,
        }
    }
}

pub fn session_report(id: &str, cap: &Capture, scenario: &DebugScenario) -> Report {
    let mut report = Report::default();
    let result = check_session(cap, scenario, &mut report);
    report.discarded = result.discarded.clone();
    report.signature = result.signature;
    report.log_hash = result.log_hash;
    // Faults and probes from the script itself
    let mut resumed_before = false;
    for item in &scenario.script {
        match &item.cmd {
            Cmd::BreakAdd(_) | Cmd::BreakRemove(_) if resumed_before => report.hit("fault:late_breakpoint"),
            Cmd::Reset => report.hit("fault:restart(reset)"),
            Cmd::Garbage(_) => report.hit("fault:garbage_line_generated"),
            _ => {}
        }
        if item.cmd.is_resume() {
            resumed_before = true;
        }
    }
    match scenario.transport {
        Transport::Split(_) => report.hit("fault:split_transport"),
        Transport::Stdin => report.hit("probe:transport_stdin"),
        Transport::Arg => report.hit("probe:transport_argument"),
        Transport::Terminal => report.hit("probe:transport_terminal"),
    }
    if !scenario.script.iter().any(|i| matches!(i.cmd, Cmd::Quit | Cmd::Exit)) {
        report.hit("fault:eof_script");
    }
    if scenario.input_is_deliverable() && scenario.program.uses_input {
        report.hit("probe:program_reads_input_under_debugger");
    }
    if scenario.input_follows_script() {
        report.hit("fault:program_input_follows_script_on_stdin");
    }
    if scenario.sep_seed != 0 {
        report.hit("fault:separator_mix");
    }
    if result.mid_pauses > 0 {
        report.hit("probe:pause_inside_program");
    }
    let has = |f: fn(&Cmd) -> bool| scenario.script.iter().any(|i| f(&i.cmd));
    report.nontrivial = match id {
        "C09" => result.mid_pauses > 0,
        "C10" => result.mid_pauses > 0 && has(|c| c.is_resume()),
        "C11" => report.counters.get("probe:pause_at_breakpoint").copied().unwrap_or(0) > 0,
        "C12" => has(|c| matches!(c, Cmd::Reset)) && scenario.script.len() >= 2,
        "C13" => has(|c| matches!(c, Cmd::Move(..) | Cmd::Goto(_) | Cmd::BreakAdd(_) | Cmd::BreakRemove(_))),
        "C15" => has(|c| matches!(c, Cmd::Eval(_))),
        "C16" => !scenario.script.is_empty(),
        _ => result.mid_pauses > 0,
    };
    let o = scenario.program.origin() as usize;
    if o < 0x8000 && o + scenario.program.n_words() > 0x8000 {
        report.hit("probe:family_high_origin_crossing_0x8000");
    }
    for f in &scenario.program.features {
        report.hit(&format!("probe:family_{}", f));
    }
    report.violations = result.violations;
    // C10 promises that a stepping command pauses earlier "only at a breakpoint": a pause that
    // is missed, or made where no breakpoint is, breaks C10 as well as C11
    if id == "C10" {
        let mut shared = Vec::new();
        for v in &report.violations {
            for class in ["missed-breakpoint", "removed-breakpoint-fired", "spurious-breakpoint"] {
                if let Some(rest) = v.key.strip_prefix(&format!("C11/{}/", class)) {
                    shared.push(Violation::new("C10", format!("C10/{}/{}", rest, class), v.detail.clone()));
                }
            }
        }
        report.violations.extend(shared);
    }
    report
}

impl Check for DebugCheck {
    fn id(&self) -> &'static str {
        self.id
    }
    fn world(&self) -> &'static str {
        "A (in-process VM + debugger + command readers on simulated stdin/argument transports)"
    }
    fn runs(&self, tier: Tier) -> u64 {
        match tier {
            Tier::Quick => self.quick_runs,
            Tier::Thorough => self.thorough_runs,
        }
    }
    fn generate(&self, seed: u64, index: u64) -> J {
        // C09: one session in 30 is also compared at process level, `lace run` against
        // `lace debug` (the two arms of the front end never run in-process)
        self.scenario(seed, index)
            .to_json()
            .set("world_b", self.id == "C09" && index % 30 == 11)
            // C16: one session in 50 also runs in the shipped binary with its whole script in
            // --command and a standard input that is not a pipe
            .set("odd_stdin", self.id == "C16" && index % 50 == 21)
    }
    fn execute(&self, cap: &Capture, scenario: &J) -> Report {
        let Some(mut scn) = DebugScenario::from_json(scenario) else {
            let mut r = Report::default();
            r.discarded = Some("bad-scenario".into());
            return r;
        };
        // Feature names travel in the JSON only
        if let Some(features) = scenario.get("program").and_then(|p| p.get_arr("features")) {
            let names: Vec<&'static str> = features
                .iter()
                .filter_map(|f| f.str())
                .filter_map(crate::props::intern_feature)
                .collect();
            scn.program.features = names;
        }
        let mut report = session_report(self.id, cap, &scn);
        if self.id == "C09" && scenario.get_bool("world_b").unwrap_or(false) && report.violations.is_empty() && report.discarded.is_none() {
            c09_run_vs_debug(&scn, &mut report);
        }
        if self.id == "C16" && scenario.get_bool("odd_stdin").unwrap_or(false) && report.violations.is_empty() && report.discarded.is_none() {
            c16_odd_stdin(&scn, &mut report);
        }
        report
    }
    fn shrink(&self, scenario: &J) -> Vec<J> {
        match DebugScenario::from_json(scenario) {
            Some(scn) => shrink_debug(&scn).into_iter().map(|s| s.to_json()).collect(),
            None => Vec::new(),
        }
    }
    fn rule(&self) -> String {
        format!("{}{}", self.rule, COMMON_RULE)
    }
    fn assumptions(&self) -> Vec<String> {
        let mut v: Vec<String> = self.assumptions.iter().map(|s| s.to_string()).collect();
        v.push("observation through guarded hooks: a snapshot of registers/PC/CC, the memory diff against the load image, the debugger's saved initial state and breakpoint list at every pause (top of Debugger::run_command), one event per executed instruction and per accepted/rejected command".into());
        v.push("programs take no input in debugger sessions (the debugger and the program share one stdin); end of the command stream is an injected end-of-input fault at a command boundary".into());
        v
    }
    fn components(&self) -> J {
        J::obj()
            .set(
                "real",
                J::Arr(
                    ["assembler as loader", "RunEnvironment::run and all handlers", "Debugger (next_action, check_interrupts, run_command, all command arms, eval)", "command parser", "Argument and Stdin readers (minus the read syscall)", "Output"]
                        .iter()
                        .map(|s| J::from(*s))
                        .collect(),
                ),
            )
            .set(
                "stub",
                J::Arr(
                    ["OS stdin read (simulated byte stream)", "process::exit (typed unwind)", "fd 1/2 (memfd capture)", "run-loop clock (tick hook with fuel and idle monitor)"]
                        .iter()
                        .map(|s| J::from(*s))
                        .collect(),
                ),
            )
    }
    fn expected_probes(&self) -> Vec<&'static str> {
        self.probes.to_vec()
    }
    fn fixed_scenarios(&self, tier: Tier) -> Vec<J> {
        (self.fixed)(tier)
    }
}

const COMMON_RULE: &str = "Each run draws from its seed: a structured terminating program (loops, nested JSR/JSRR/RET or CALL/RETS subroutines, recursion, self-modifying stores, output traps, all endings; optional .break directives at any legal position), the stack flag, minimal mode, a script of 0..max commands from the property's mix in random documented spellings (aliases, letter case, radix/sign/zero styles, label+-offset, ^offset), rejected lines interleaved, the transport (all in --command, all on stdin, split after command k), `;` vs newline separators with blank commands, and how the script ends (end of input at a command boundary, quit, exit). Phase 1 runs the image without debugger; phase 2 runs the real debugger session in-process under a tick budget of 4*(reference instructions + commands) + slack with an idle-tick monitor; the recorded event log (pause snapshots, executed instructions, accepted/rejected commands, end) is compared in lockstep with RefDbg on RefVm, and each divergence is attributed to the property that owns it (others are counted as out_of_scope_divergences). ";

pub static C09: DebugCheck = DebugCheck {
    id: "C09",
    mix: Mix::transparent,
    quick_runs: 16_000,
    thorough_runs: 1_500_000,
    exception_endings_pct: 50,
    breaks_pct: 50,
    max_script: 14,
    rule: "C09 owns the model-free differential oracle: for scripts made only of execution-control and inspection commands ending in quit/end of input, program stdout, final registers/PC/CC/all 65,536 words and the way the process ends must equal those of the same image run without debugger. Non-trivial: at least one pause strictly inside the program's execution; distinct = distinct hash of (command kinds, instructions executed per command, end, transport). Workload: see common rule. ",
    assumptions: &["the undebugged run of the same image on the same real VM is the reference (no model involved in the verdict)"],
    probes: &["probe:pause_inside_program", "probe:pause_at_breakpoint", "probe:pause_at_halt", "fault:eof_script", "fault:late_breakpoint", "fault:split_transport"],
    fixed: no_fixed,
};

pub static C10: DebugCheck = DebugCheck {
    id: "C10",
    mix: Mix::stepping,
    quick_runs: 16_000,
    thorough_runs: 1_500_000,
    exception_endings_pct: 30,
    breaks_pct: 30,
    max_script: 14,
    rule: "C10 owns pause points after step / step into k / step out / continue / exit: executed-instruction count since the previous pause and the complete machine state at every pause must equal RefDbg's (strict rows of DESIGN §3.7.2; adopted rows counted), HALT never executes while attached. Non-trivial: a resuming command paused strictly inside the program. ",
    assumptions: &["RefDbg encodes help.txt, the Status doc comments and the statement of C10; where they are silent (step out without the stack flag, resuming on a breakpoint that did not cause the pause) every admissible outcome is accepted and counted as adopted"],
    probes: &["probe:pause_inside_program", "probe:pause_at_halt", "probe:pause_outside_user_space", "probe:family_recursion_call", "probe:family_recursion_jsr", "probe:family_nested_sub"],
    fixed: no_fixed,
};

pub static C11: DebugCheck = DebugCheck {
    id: "C11",
    mix: Mix::breakpoints,
    quick_runs: 16_000,
    thorough_runs: 1_500_000,
    exception_endings_pct: 20,
    breaks_pct: 85,
    max_script: 14,
    rule: "C11 owns: breakpoint list after load = {origin + index of the statement following each .break}; list sorted/unique and equal to the reference set at every pause; every arrival at a marked address pauses before the instruction executes; a removed address never pauses; re-arming across loop revisits. Non-trivial: at least one pause at a breakpoint. ",
    assumptions: &["an instruction that jumps to itself while carrying a breakpoint is not generated (the property's re-arming rule is ambiguous there)"],
    probes: &["probe:pause_at_breakpoint", "fault:late_breakpoint", "probe:family_loop", "probe:refused_break_add", "probe:refused_break_remove"],
    fixed: no_fixed,
};

pub static C12: DebugCheck = DebugCheck {
    id: "C12",
    mix: Mix::resets,
    quick_runs: 16_000,
    thorough_runs: 1_500_000,
    exception_endings_pct: 20,
    breaks_pct: 20,
    max_script: 14,
    rule: "C12 owns (model-free): the debugger's saved initial state, read through the accessor at every pause, equals the load snapshot in all registers and all 65,536 words; the machine after every reset equals the load snapshot; a run continued after reset behaves like a fresh run (reference continuation). reset is this system's crash-and-restart: only the saved state survives. Non-trivial: a reset preceded by at least one other command. ",
    assumptions: &["the load snapshot taken by accessor right after RunEnvironment::try_from is the ground truth"],
    probes: &["fault:restart(reset)", "probe:family_self_modify", "probe:pause_inside_program"],
    fixed: no_fixed,
};

pub static C13: DebugCheck = DebugCheck {
    id: "C13",
    mix: Mix::writes,
    quick_runs: 16_000,
    thorough_runs: 1_500_000,
    exception_endings_pct: 20,
    breaks_pct: 20,
    max_script: 14,
    rule: "C13 owns the frame condition around every non-resuming command: consecutive pause snapshots differ only in the one named target with the requested value; move/goto/break add/remove aimed outside [origin,0xFE00) in absolute, label+-offset or ^offset form (true-integer arithmetic, offsets at and beyond the signed 16-bit boundary) change nothing; in-range targets take effect; print/registers/assembly/break list change nothing. 45% of location arguments are aimed at boundaries (origin-1, origin, 0x7FFF/0x8000, 0xFDFF/0xFE00, 0xFFFF, beyond 16 bits). Non-trivial: at least one move/goto/break command. Fixed part (enumeration, labelled as such): one session per target address - every 251st address in the quick tier, every one of the 65,536 addresses in the thorough tier, spread over three origins (0x3000, 0x0200, 0x7FF8) and the three spellings (absolute, Mark_1+-offset, ^offset) - issuing move, break add, goto, break remove at it and ending with exit. The cross product addresses x spellings x machine states of the quantifier is otherwise sampled, not enumerated. ",
    assumptions: &["address arithmetic of the reference is done in unbounded integers"],
    probes: &["probe:refused_move", "probe:refused_goto", "probe:refused_break_add", "probe:family_high_origin_crossing_0x8000"],
    fixed: c13_address_sweep,
};

pub static C15: DebugCheck = DebugCheck {
    id: "C15",
    mix: Mix::evals,
    quick_runs: 16_000,
    thorough_runs: 1_500_000,
    exception_endings_pct: 10,
    breaks_pct: 10,
    max_script: 12,
    rule: "C15 owns eval: after goto/stepping to arbitrary PCs, eval of register/immediate/base+offset forms, PC-relative data instructions naming a label (the label denotes its address wherever the PC is), jumps through registers, output traps and stack instructions must change the machine exactly as RefVm executing that instruction, PC unchanged unless the instruction is a jump; BR*, RTI, HALT, unknown traps and text that is not exactly one well-formed instruction are refused with no effect and never end the session. Literal PC-relative offsets and link values are not generated. Non-trivial: at least one eval. ",
    assumptions: &["a label farther from the PC than a 9-bit field reaches may be refused or take effect (adopted)"],
    probes: &["probe:refused_eval", "probe:pause_inside_program"],
    fixed: no_fixed,
};

pub static C16: DebugCheck = DebugCheck {
    id: "C16",
    mix: Mix::progress,
    quick_runs: 16_000,
    thorough_runs: 1_500_000,
    exception_endings_pct: 85,
    breaks_pct: 20,
    max_script: 14,
    rule: "C16 owns bounded liveness: (a) online no-spin monitor - never more than 24 consecutive run-loop iterations without an executed instruction or a consumed command; (b) the session ends within 4*(reference instructions + commands) + slack ticks; (c) after the fact, ticks <= 4*(instructions + commands) + 64; (d) no panic when resuming at PC = 0xFFFF, below origin, >= 0xFE00 or on HALT. Programs end by HALT, computed jumps to 0xFFFF / below origin / >= 0xFE00, unknown traps; every script ends with end of input (then only the program remains: progress once faults stop). Non-trivial: non-empty script. ",
    assumptions: &["one tick = one iteration of RunEnvironment::run (tick hook); the reference instruction count comes from RefDbg"],
    probes: &["probe:pc_0xFFFF_under_debugger", "probe:pause_outside_user_space", "probe:pause_at_halt", "fault:eof_script"],
    fixed: no_fixed,
};

/// C09 at process level: the shipped `lace run` against the shipped `lace debug` fed the same
/// transparent script (through `--command`, a real pipe, or both), the program's input on the
/// same standard input. Program output and exit status must be the same.
fn c09_run_vs_debug(scn: &DebugScenario, report: &mut Report) {
    use crate::session::deliver;
    use crate::world_b::{run_lace, Run, Scratch};
    let transparent = scn.script.iter().all(|i| i.cmd.is_transparent());
    if !transparent || scn.transport == Transport::Terminal {
        return;
    }
    // Program input is only deliverable where the script cannot eat it (see session.rs)
    let input: Vec<u8> = if scn.input_is_deliverable() || scn.input_follows_script() { scn.input.clone() } else { Vec::new() };
    if scn.program.uses_input && input.is_empty() && !scn.input.is_empty() {
        return;
    }
    let scratch = Scratch::new("c09");
    let asm = scratch.path("p.asm");
    if std::fs::write(&asm, scn.program.render()).is_err() {
        return;
    }
    let base_args = |verb: &str| -> Vec<std::ffi::OsString> {
        let mut args: Vec<std::ffi::OsString> = vec![verb.into(), asm.clone().into_os_string()];
        if scn.minimal {
            args.push("--minimal".into());
        }
        if scn.stack {
            args.push("-f".into());
            args.push("stack".into());
        }
        args
    };
    let plain = run_lace(
        &scratch,
        &Run {
            args: base_args("run"),
            cwd: &scratch.dir,
            stdin: &input,
            plan: None,
            watch: None,
            rlimit_fsize: None,
        },
    );
    let d = deliver(&scn.script, &scn.transport, scn.sep_seed);
    let mut args = base_args("debug");
    if let Some(arg) = &d.arg {
        args.push(format!("--command={}", arg).into());
    }
    let mut stdin = d.stdin.clone();
    if scn.input_follows_script() && !matches!(stdin.last(), Some(b'\n') | Some(b';')) {
        stdin.push(b'\n');
    }
    stdin.extend_from_slice(&input);
    let debugged = run_lace(
        &scratch,
        &Run {
            args,
            cwd: &scratch.dir,
            stdin: &stdin,
            plan: None,
            watch: None,
            rlimit_fsize: None,
        },
    );
    report.count("processes", 2);
    report.hit("fault:real_process_run_vs_debug");
    if plain.hang || debugged.hang {
        return;
    }
    let cut = |out: &[u8]| -> Vec<u8> { crate::world_b::program_output(out).unwrap_or_else(|| out.to_vec()) };
    if plain.label() != debugged.label() {
        report.violations.push(Violation::new(
            "C09",
            "C09/world-b/status",
            format!("`lace run` ended with {}, `lace debug` with the transparent script with {}", plain.label(), debugged.label()),
        ));
    } else if cut(&plain.stdout) != cut(&debugged.stdout) {
        let (a, b) = (cut(&plain.stdout), cut(&debugged.stdout));
        let at = (0..a.len().max(b.len())).find(|i| a.get(*i) != b.get(*i)).unwrap_or(0);
        report.violations.push(Violation::new(
            "C09",
            "C09/world-b/stdout",
            format!(
                "program output of `lace run` and of `lace debug` with the transparent script differ at byte {}: run {:?}, debug {:?}",
                at,
                String::from_utf8_lossy(&a[at.saturating_sub(6).min(a.len())..(at + 14).min(a.len())]),
                String::from_utf8_lossy(&b[at.saturating_sub(6).min(b.len())..(at + 14).min(b.len())])
            ),
        ));
    }
}

/// C16 at process level: the whole script in `--command`, and a standard input that is a
/// directory (every read fails), closed, or /dev/null. Whatever the session makes of that, it
/// ends: the reference program ends, and a reader that cannot read is no reason to spin.
fn c16_odd_stdin(scn: &DebugScenario, report: &mut Report) {
    use crate::session::deliver;
    use crate::world_b::{run_lace, OddStdin, Run, Scratch, ODD_STDIN};
    if scn.program.uses_input {
        return;
    }
    let scratch = Scratch::new("c16");
    let asm = scratch.path("p.asm");
    if std::fs::write(&asm, scn.program.render()).is_err() {
        return;
    }
    let d = deliver(&scn.script, &Transport::Arg, 0);
    for (kind, name) in [
        (OddStdin::Directory(scratch.dir.clone()), "directory"),
        (OddStdin::Closed, "closed"),
        (OddStdin::DevNull, "dev-null"),
    ] {
        let mut args: Vec<std::ffi::OsString> = vec!["debug".into(), asm.clone().into_os_string()];
        if scn.minimal {
            args.push("--minimal".into());
        }
        if scn.stack {
            args.push("-f".into());
            args.push("stack".into());
        }
        if let Some(arg) = &d.arg {
            args.push(format!("--command={}", arg).into());
        }
        ODD_STDIN.with(|s| *s.borrow_mut() = Some(kind));
        let p = run_lace(
            &scratch,
            &Run {
                args,
                cwd: &scratch.dir,
                stdin: b"",
                plan: None,
                watch: None,
                rlimit_fsize: None,
            },
        );
        report.count("processes", 1);
        report.hit(&format!("fault:stdin_is_{}", name));
        if p.hang {
            report.violations.push(Violation::new(
                "C16",
                format!("C16/world-b/stdin={}/no-termination", name),
                format!("`lace debug` with the whole script in --command and standard input {} did not end within 20 s", name),
            ));
            return;
        }
    }
}
