//! C03 — Running an image follows the machine model from load to stop.
//!
//! System under simulation: loader + run loop + trap routines as one node; its environment is
//! the input byte stream (with end-of-input faults), the output stream and process exit.
//! Oracle: RefVm, step for step.

use crate::capture::Capture;
use crate::engine::{Check, Report, Tier, Violation};
use crate::gen::{self, GenOpts};
use crate::json::J;
use crate::model::vm::{self, Io, LoadError, Stop, Vm};
use crate::rng::{fnv, run_seed, Rng};
use crate::scn;
use crate::world_a::{run_session, End, Image, Outcome, Session};

pub struct C03;

const ID: &str = "C03";

/// Input typed on a terminal: valid UTF-8 (keys are characters), multi-byte characters
/// included, no NUL (a terminal cannot type it as a character key).
fn tty_input(rng: &mut Rng) -> Vec<u8> {
    let n = rng.usize_below(8);
    let mut s = String::new();
    for _ in 0..n {
        s.push(*rng.pick(&['a', 'Z', '7', ' ', '\n', 'é', '😀', '~', '€']));
    }
    s.into_bytes()
}

fn random_input(rng: &mut Rng) -> Vec<u8> {
    let n = match rng.below(6) {
        0 => 0,
        1 => 1,
        2 => 2,
        _ => rng.usize_below(10),
    };
    (0..n)
        .map(|_| match rng.below(8) {
            0 => 0x80 + rng.below(0x80) as u8, // non-ASCII
            1 => b'\n',
            2 => 0,
            _ => 0x20 + rng.below(0x5f) as u8,
        })
        .collect()
}

/// Compare a plain (no debugger) run of the real system with the reference machine.
/// `expected_words`: for raw images the words handed to the loader (origin first).
pub fn compare_plain(
    prop: &str,
    outcome: &Outcome,
    raw_words: Option<&[u16]>,
    program_words: Option<(u16, usize)>,
    stack: bool,
    minimal: bool,
    input: &[u8],
    fuel: u64,
    report: &mut Report,
) -> Vec<Violation> {
    let mut v = Vec::new();
    let viol = |key: String, detail: String| Violation::new(prop, key, detail);

    // ----- load -----
    let words: Vec<u16> = match (raw_words, program_words) {
        (Some(w), _) => w.to_vec(),
        (None, Some((orig, n))) => {
            let Some((_, mem)) = &outcome.load else {
                v.push(viol(
                    "C03/load/failed".into(),
                    format!("image did not load: {}", outcome.end.label()),
                ));
                return v;
            };
            let mut w = vec![orig];
            w.extend_from_slice(&mem[orig as usize..orig as usize + n]);
            w
        }
        _ => unreachable!(),
    };
    let model = Vm::load(&words, stack, minimal);
    let mut model = match model {
        Err(e) => {
            // The loader must refuse with the error exit, never load, never crash
            report.hit(match e {
                LoadError::Empty => "probe:load_refused_empty",
                LoadError::TooLong => "probe:load_refused_too_long",
            });
            // (which error status is not this property's business)
            if outcome.load.is_some() || !matches!(outcome.end, End::Exit(code) if code != 0 && code != 101) {
                v.push(viol(
                    format!("C03/load/refusal/{:?}", e),
                    format!("loader should refuse ({:?}) with an error exit, got {}", e, outcome.end.label()),
                ));
            }
            return v;
        }
        Ok(m) => m,
    };
    let Some((lregs, lmem)) = &outcome.load else {
        v.push(viol(
            "C03/load/failed".into(),
            format!("image should load but: {}", outcome.end.label()),
        ));
        return v;
    };
    if lregs.pc != model.pc || lregs.orig != model.orig {
        v.push(viol(
            "C03/load/pc".into(),
            format!("PC/orig after load {:04x}/{:04x}, expected {:04x}", lregs.pc, lregs.orig, model.pc),
        ));
    }
    if lregs.reg != model.reg {
        v.push(viol(
            "C03/load/registers".into(),
            format!("registers after load {:04x?}, expected {:04x?}", lregs.reg, model.reg),
        ));
    }
    if lregs.cc != 0 {
        v.push(viol("C03/load/cc".into(), format!("condition code after load {:03b}", lregs.cc)));
    }
    if lmem[..] != model.mem[..] {
        let at = (0..0x10000).find(|a| lmem[*a] != model.mem[*a]).unwrap();
        let region = if at == model.orig as usize + words.len() - 1 {
            "sentinel"
        } else if at >= model.orig as usize && at < model.orig as usize + words.len() - 1 {
            "image"
        } else {
            "outside"
        };
        v.push(viol(
            format!("C03/load/memory/{}", region),
            format!("memory after load differs at x{:04x}: {:04x}, expected {:04x}", at, lmem[at], model.mem[at]),
        ));
    }
    if !v.is_empty() {
        return v;
    }

    // ----- run -----
    let mut io = Io::with_input(input);
    let mut mtrace: Vec<(u16, u16)> = Vec::new();
    let (mstop, msteps) = model.run(&mut io, fuel, Some(&mut mtrace));
    report.sim_ticks += outcome.ticks;
    if mstop == Some(Stop::Rti) {
        report.discarded = Some("rti-unspecified".into());
        return v;
    }

    let itrace = outcome.exec_trace();
    // No fetch outside [origin, 0xFE00)
    if let Some((pc, _)) = itrace.iter().find(|(pc, _)| *pc < lregs.orig || *pc >= vm::USER_END) {
        v.push(viol(
            "C03/fetch-outside-user-space".into(),
            format!("instruction fetched at x{:04x}", pc),
        ));
    }
    let common = itrace.len().min(mtrace.len());
    let diverge = (0..common).find(|i| itrace[*i] != mtrace[*i]);
    if let Some(i) = diverge {
        // The step before decides which instruction misbehaved
        let culprit = if i > 0 { mtrace[i - 1].1 } else { mtrace[i].1 };
        v.push(viol(
            format!("C03/trace/after-op={:x}", culprit >> 12),
            format!(
                "execution #{} differs: real fetched x{:04x}:{:04x}, reference x{:04x}:{:04x} (previous instruction {:04x})",
                i, itrace[i].0, itrace[i].1, mtrace[i].0, mtrace[i].1, culprit
            ),
        ));
        return v;
    }

    // ----- stop -----
    let expected_end = match &mstop {
        Some(Stop::Normal) => Some(End::Returned),
        Some(Stop::BelowOrigin) | Some(Stop::AboveUser) | Some(Stop::UnknownTrap(_)) => Some(End::Exit(0xEE)),
        Some(Stop::StackDisabled) | Some(Stop::InputEof) => Some(End::Exit(1)),
        Some(Stop::Rti) => None,
        None => Some(End::Fuel),
    };
    let stop_name = match &mstop {
        Some(s) => format!("{:?}", s).split('(').next().unwrap().to_string(),
        None => "Budget".into(),
    };
    // On a terminal the input never ends; the simulated user walking away stands for it
    let walked_away = outcome.end == End::KeysExhausted && mstop == Some(Stop::InputEof);
    if walked_away {
        report.hit("fault:terminal_user_walked_away");
    }
    if !walked_away && (itrace.len() != mtrace.len() || !expected_end.as_ref().is_some_and(|e| crate::world_a::end_agrees(&outcome.end, e))) {
        // A pending costless stop at the exact budget boundary shows as Fuel in the real system
        let boundary = outcome.end == End::Fuel && msteps == fuel;
        if !boundary {
            let last = mtrace.last().map(|x| x.1).unwrap_or(0);
            v.push(viol(
                format!("C03/stop/ref={}/real={}", stop_name, end_key(&outcome.end)),
                format!(
                    "reference: {} after {} instructions; real: {} after {} (last reference instruction {:04x})",
                    stop_name,
                    mtrace.len(),
                    outcome.end.label(),
                    itrace.len(),
                    last
                ),
            ));
            return v;
        }
    }
    report.hit(&format!("probe:stop_{}", stop_name));

    // ----- output -----
    let limit = io.adopted_at.unwrap_or(usize::MAX);
    let exp = &io.output[..io.output.len().min(limit)];
    let got = &outcome.stdout;
    let mut verdict = io.output_matches(got);
    if verdict.is_err() && io.puts_ambiguous_at.is_some() {
        // The other reading of the PUTS terminator, applied to the whole run
        if let Ok(mut other) = Vm::load(&words, stack, minimal) {
            other.puts_whole_word = true;
            let mut io2 = Io::with_input(input);
            let _ = other.run(&mut io2, fuel, None);
            if io2.output_matches(got).is_ok() {
                report.hit("adopted:puts_ends_at_whole_zero_word");
                verdict = Ok(());
            }
        }
    } else if io.puts_ambiguous_at.is_some() {
        report.hit("adopted:puts_ends_at_zero_low_byte");
    }
    if !io.tables.is_empty() {
        report.count("probe:register_table_contents_compared", io.tables.len() as u64);
    }
    if let Err(miss) = verdict {
        // Which trap produced the first differing reference byte?
        let vect = if miss.in_table { 0x27 } else { output_source(&words, stack, minimal, input, fuel, miss.exp_at) };
        let (at, eat) = (miss.got_at, miss.exp_at);
        v.push(viol(
            format!("C03/output/trap=x{:02x}", vect),
            format!(
                "stdout differs at byte {}{}: real {:?}, reference {:?}",
                at,
                if miss.in_table { " (register table: values missing or out of order)" } else { "" },
                String::from_utf8_lossy(&got[at.saturating_sub(8).min(got.len())..(at + 16).min(got.len())]),
                String::from_utf8_lossy(&exp[eat.saturating_sub(8).min(exp.len())..(eat + 16).min(exp.len())])
            ),
        ));
    }
    if io.adopted > 0 {
        report.count("adopted:output_char", io.adopted);
    }

    // ----- input consumption -----
    if outcome.keys_read > 0 || walked_away {
        report.hit("probe:program_input_from_terminal");
    } else if outcome.stdin_pos != io.input_pos {
        v.push(viol(
            "C03/input/consumed".into(),
            format!("real consumed {} input bytes, reference {}", outcome.stdin_pos, io.input_pos),
        ));
    }
    if mstop == Some(Stop::InputEof) {
        report.hit("fault:eof_input");
    }
    let nonascii = input[..io.input_pos.min(input.len())].iter().filter(|b| !b.is_ascii()).count();
    report.count("fault:nonascii_input", nonascii as u64);

    // ----- final state -----
    if let Some((fregs, fmem)) = &outcome.fin {
        if fregs.pc != model.pc {
            v.push(viol("C03/final/pc".into(), format!("final PC {:04x}, reference {:04x}", fregs.pc, model.pc)));
        }
        if fregs.reg != model.reg {
            v.push(viol(
                "C03/final/registers".into(),
                format!("final registers {:04x?}, reference {:04x?}", fregs.reg, model.reg),
            ));
        }
        if fregs.cc != model.cc {
            v.push(viol("C03/final/cc".into(), format!("final CC {:03b}, reference {:03b}", fregs.cc, model.cc)));
        }
        if fmem[..] != model.mem[..] {
            let at = (0..0x10000).find(|a| fmem[*a] != model.mem[*a]).unwrap();
            v.push(viol(
                "C03/final/memory".into(),
                format!("final memory differs at x{:04x}: {:04x}, reference {:04x}", at, fmem[at], model.mem[at]),
            ));
        }
    } else {
        v.push(viol("C03/final/missing".into(), "no final state".into()));
    }
    v
}

/// Short, location-free name of how a run ended, for class keys.
pub fn end_key(end: &End) -> String {
    match end {
        End::Panic(msg) => {
            let text = msg.split(" @ ").next().unwrap_or("");
            let short: String = text.chars().take(48).collect();
            format!("panic:{}", short.replace(' ', "_"))
        }
        other => other.label(),
    }
}

/// Trap vector that produced reference output byte `at` (0xff if none).
fn output_source(words: &[u16], stack: bool, minimal: bool, input: &[u8], fuel: u64, at: usize) -> u8 {
    let Ok(mut m) = Vm::load(words, stack, minimal) else {
        return 0xff;
    };
    let mut io = Io::with_input(input);
    let mut n = 0;
    while n < fuel {
        let before = io.output.len();
        let step = m.step(&mut io);
        n += 1;
        if io.output.len() > at && before <= at {
            return step.fetched.map(|(_, i)| (i & 0xFF) as u8).unwrap_or(0xff);
        }
        if step.stop.is_some() {
            break;
        }
    }
    0xff
}

pub fn shape_signature(trace: &[(u16, u16)], extra: &str) -> u64 {
    let mut bytes = Vec::with_capacity(trace.len().min(96) + extra.len() + 8);
    for (_, instr) in trace.iter().take(96) {
        let op = (instr >> 12) as u8;
        bytes.push(if op == 0xF { 0xF0 | ((*instr & 0xF) as u8) } else { op });
    }
    bytes.extend_from_slice(&(trace.len().min(1 << 20) as u32 / 16).to_le_bytes());
    bytes.extend_from_slice(extra.as_bytes());
    fnv(&bytes)
}

impl Check for C03 {
    fn id(&self) -> &'static str {
        ID
    }
    fn world(&self) -> &'static str {
        "A (in-process VM on simulated input/output streams)"
    }
    fn runs(&self, tier: Tier) -> u64 {
        match tier {
            Tier::Quick => 24_000,
            Tier::Thorough => 2_000_000,
        }
    }

    fn generate(&self, seed: u64, index: u64) -> J {
        let mut rng = Rng::new(run_seed(seed, ID, index));
        let minimal = rng.chance(2, 3);
        let stack = rng.coin();
        if rng.chance(1, 4) {
            let words = gen::raw_image(&mut rng);
            // Occasionally images that do not fit, or the empty image
            let words = match rng.below(40) {
                0 => Vec::new(),
                1 => {
                    let n = 1 + rng.usize_below(6);
                    // origin + n + 1 (sentinel) lands exactly on, one below or one above 0x10000
                    let mut w = vec![(0x10000usize - n - 2 + rng.usize_below(3)) as u16];
                    w.extend((0..n).map(|_| 0xF025));
                    w
                }
                _ => words,
            };
            return J::obj()
                .set("kind", "raw")
                .set("words", scn::words_to_json(&words))
                .set("stack", stack)
                .set("minimal", minimal)
                .set("input", scn::bytes_to_json(&random_input(&mut rng)))
                .set("fuel", 2000u64);
        }
        let opts = GenOpts {
            stack,
            minimal,
            allow_input: rng.chance(1, 2),
            allow_exception_endings: true,
            allow_breaks: rng.chance(1, 4),
            max_blocks: 1 + rng.usize_below(7),
            high_origin: rng.chance(1, 12),
            tail_beyond_user: false,
        };
        let program = gen::generate(&mut rng, &opts);
        // One input-reading program in five gets its input from a simulated interactive terminal
        let tty = opts.allow_input && rng.chance(1, 5);
        J::obj()
            .set("kind", "source")
            .set("program", scn::program_to_json(&program))
            .set("stack", stack)
            .set("minimal", minimal)
            .set("input", scn::bytes_to_json(&if tty { tty_input(&mut rng) } else { random_input(&mut rng) }))
            .set("tty", tty)
            .set("fuel", 50_000u64)
    }

    fn execute(&self, cap: &Capture, scenario: &J) -> Report {
        let mut report = Report::default();
        let stack = scenario.get_bool("stack").unwrap_or(false);
        let minimal = scenario.get_bool("minimal").unwrap_or(true);
        let input = scn::bytes_from_json(scenario.get("input").unwrap_or(&J::Null));
        let fuel = scenario.get_int("fuel").unwrap_or(50_000) as u64;
        let tty = scenario.get_bool("tty").unwrap_or(false);
        let (image, raw, prog) = match scenario.get_str("kind") {
            Some("raw") => {
                let words = scn::words_from_json(scenario.get("words").unwrap_or(&J::Null));
                (Image::Raw(words.clone()), Some(words), None)
            }
            _ => {
                let Some(program) = scenario.get("program").and_then(scn::program_from_json) else {
                    report.discarded = Some("bad-scenario".into());
                    return report;
                };
                (Image::Source(program.render()), None, Some(program))
            }
        };
        let session = Session {
            image,
            stack,
            minimal,
            debug: None,
            tty_input: if tty {
                // The same bytes typed on an interactive terminal: characters as key events
                // (Enter for a line feed); a terminal never reports end of input
                Some(
                    String::from_utf8_lossy(&input)
                        .chars()
                        .map(|c| if c == '\n' { crate::world_a::Key2::Enter } else { crate::world_a::Key2::Char(c) })
                        .collect(),
                )
            } else {
                None
            },
            stdin: input.clone(),
            fuel,
            max_idle: u64::MAX,
            max_commands: u64::MAX,
            log_exec: true,
        };
        let outcome = run_session(cap, &session);
        if let End::AsmError(_) = &outcome.end {
            report.discarded = Some("asm-error".into());
            return report;
        }
        if let (End::Panic(msg), None) = (&outcome.end, &outcome.load) {
            if prog.is_some() {
                // Assembler panic: C05's subject, not C03's
                report.discarded = Some(format!("asm-panic:{}", msg.split('@').next().unwrap_or("").trim()));
                return report;
            }
        }
        let program_words = prog.as_ref().map(|p| (p.origin(), p.n_words()));
        let violations = compare_plain(
            ID,
            &outcome,
            raw.as_deref(),
            program_words,
            stack,
            minimal,
            &input,
            fuel,
            &mut report,
        );
        let trace = outcome.exec_trace();
        report.nontrivial = trace.len() >= 3;
        report.signature = shape_signature(&trace, &outcome.end.label());
        let mut h = Vec::new();
        h.extend_from_slice(outcome.end.label().as_bytes());
        h.extend_from_slice(&outcome.stdout);
        for (pc, i) in &trace {
            h.extend_from_slice(&pc.to_le_bytes());
            h.extend_from_slice(&i.to_le_bytes());
        }
        if let Some((r, _)) = &outcome.fin {
            h.extend_from_slice(format!("{:?}", r).as_bytes());
        }
        report.log_hash = fnv(&h);
        if let Some(p) = &prog {
            for f in scenario
                .get("program")
                .and_then(|p| p.get_arr("features"))
                .unwrap_or(&[])
            {
                if let Some(f) = f.str() {
                    report.hit(&format!("probe:family_{}", f));
                }
            }
            let _ = p;
        } else {
            report.hit("probe:family_raw_image");
        }
        report.violations = violations;
        report
    }

    fn shrink(&self, scenario: &J) -> Vec<J> {
        let mut out = Vec::new();
        match scenario.get_str("kind") {
            Some("raw") => {
                let words = scn::words_from_json(scenario.get("words").unwrap_or(&J::Null));
                if words.len() > 1 {
                    for body in scn::shrink_list(&words[1..]) {
                        let mut w = vec![words[0]];
                        w.extend(body);
                        out.push(scenario.clone().set("words", scn::words_to_json(&w)));
                    }
                    // Replace single words by NOP
                    for i in 1..words.len() {
                        if words[i] != 0 {
                            let mut w = words.clone();
                            w[i] = 0;
                            out.push(scenario.clone().set("words", scn::words_to_json(&w)));
                        }
                    }
                }
            }
            _ => {
                if let Some(p) = scenario.get("program").and_then(scn::program_from_json) {
                    for q in scn::shrink_program(&p) {
                        out.push(scenario.clone().set("program", scn::program_to_json(&q)));
                    }
                }
            }
        }
        let input = scn::bytes_from_json(scenario.get("input").unwrap_or(&J::Null));
        for i in scn::shrink_list(&input) {
            out.push(scenario.clone().set("input", scn::bytes_to_json(&i)));
        }
        out
    }

    fn rule(&self) -> String {
        "Each run draws, from its seed, either a structured terminating program (ALU, loads/stores, counted and nested loops, JSR/JSRR/RET and CALL/RETS subroutines, recursion, self-modifying stores, every output trap, GETC/IN, endings: HALT, mid-HALT, falling off the end, jump to 0xFFFF, below origin, >=0xFE00, unknown trap, opcode 0xD with the flag off, RET from main) assembled by the real assembler, or a raw random word image at a random origin under a 2000-tick budget; plus an input byte stream (ASCII, non-ASCII, NUL) whose end is an injected end-of-input fault. The real loader+VM run in-process on the simulated streams; RefVm is run on the same words and bytes. Compared: load state (all 65,536 words), the (pc,instr) execution sequence event by event, stop reason and status, stdout bytes, input bytes consumed, final registers/PC/CC/all memory. A run is non-trivial if at least 3 instructions executed; distinct = distinct hash of (opcode sequence of the first 96 executed instructions incl. trap vector nibble, bucketed length, end)."
            .into()
    }
    fn assumptions(&self) -> Vec<String> {
        vec![
            "RefVm (written from the ISA tables, README and air.rs format comment) is the reference machine; LEA sets condition codes and JSRR links before jumping (2nd-edition ISA wording) as lace documents no deviation".into(),
            "words of assembled programs are read back from the real machine after load, so encoder defects (C01, not claimed) cannot masquerade as VM defects".into(),
            "process exit is observed as a typed unwind raised in front of std::process::exit (hook); the thorough tier cross-checks real exit statuses through the shipped binary".into(),
            "PUTS ends at a word with a zero low byte (lace) or at a word that is x0000 (ISA wording): a run must follow one of the two readings as a whole; the layout of the non-minimal REG table is decoration, but it must show R0..R7, PC and CC values in that order (0x%04x / %03b) and end within its last line or up to four border lines; a PUTS character word above 0xFF is not specified: output comparison of such a run stops there (counted as adopted)".into(),
            "RTI is documented as unimplemented: runs that reach it are discarded".into(),
        ]
    }
    fn components(&self) -> J {
        J::obj()
            .set(
                "real",
                J::Arr(
                    ["lexer", "parser", "AIR/backpatch/emit", "RunEnvironment::{try_from,from_raw,run}", "all instruction and trap handlers", "Output::Normal", "runtime::read_char/read_byte_stdin (minus the read syscall)"]
                        .iter()
                        .map(|s| J::from(*s))
                        .collect(),
                ),
            )
            .set(
                "stub",
                J::Arr(
                    ["OS stdin read (simulated byte stream with EOF)", "process::exit (typed unwind)", "fd 1/2 (memfd capture)"]
                        .iter()
                        .map(|s| J::from(*s))
                        .collect(),
                ),
            )
    }
    fn expected_probes(&self) -> Vec<&'static str> {
        vec![
            "fault:eof_input",
            "fault:nonascii_input",
            "probe:stop_Normal",
            "probe:stop_BelowOrigin",
            "probe:stop_AboveUser",
            "probe:stop_UnknownTrap",
            "probe:stop_StackDisabled",
            "probe:stop_InputEof",
            "probe:family_raw_image",
            "probe:family_self_modify",
            "probe:family_putsp",
            "probe:family_fall_off_end",
            "probe:family_jump_ffff",
            "probe:load_refused_too_long",
            "probe:family_string_across_top_of_memory",
        ]
    }
}
