//! C14 — The command language is total, unambiguous and transport-independent.
//!
//! Transport half (decided by simulation): one script is delivered through every transport
//! configuration — all in `--command`, all on stdin, split after command k, `;` vs newline
//! vs mixed separators with blank commands, typed on the simulated terminal — and the
//! sessions must mean the same. Grammar half (sampled): every command is rendered in a random
//! documented spelling and the real parser's result is compared with the generator-known
//! meaning; lines the documented grammar rejects must be rejected without effect.

use crate::capture::Capture;
use crate::engine::{Check, Report, Tier, Violation};
use crate::gen::{self, GenOpts};
use crate::gen_script::{gen_script, Ctx, EndStyle, Mix};
use crate::json::J;
use crate::props::dbg_checks::{session_report, shrink_debug};
use crate::rng::{fnv, run_seed, Rng};
use crate::script::{Cmd, Item};
use crate::session::{meaning, run_delivery, DebugScenario, Transport};
use crate::world_a::End;

pub struct C14;
const ID: &str = "C14";

fn scenario(seed: u64, index: u64) -> DebugScenario {
    let mut rng = Rng::new(run_seed(seed, ID, index));
    let minimal = rng.chance(3, 4);
    let stack = rng.coin();
    let opts = GenOpts {
        stack,
        minimal,
        allow_input: false,
        allow_exception_endings: rng.chance(1, 4),
        allow_breaks: rng.chance(1, 4),
        max_blocks: 1 + rng.usize_below(4),
        high_origin: rng.chance(1, 10),
            tail_beyond_user: false,
    };
    let program = gen::generate(&mut rng, &opts);
    let ctx = Ctx::new(&program, stack, minimal);
    let end = match rng.below(10) {
        0..=3 => EndStyle::Eof,
        4..=7 => EndStyle::Quit,
        _ => EndStyle::Exit,
    };
    let script = gen_script(&mut rng, &ctx, &Mix::language(), 12, end);
    let transport = match rng.below(10) {
        0..=3 => Transport::Arg,
        4..=6 => Transport::Stdin,
        _ => Transport::Split(rng.usize_below(script.len() + 1)),
    };
    DebugScenario {
        program,
        stack,
        minimal,
        script,
        transport,
        sep_seed: rng.next_u64() | 1,
        input: Vec::new(),
    }
}

/// The other deliveries a scenario is compared with (pure function of the scenario).
fn alternates(scn: &DebugScenario) -> Vec<(Transport, u64, &'static str)> {
    let mut rng = Rng::new(scn.sep_seed ^ 0xA17E);
    let n = scn.script.len();
    let mut out: Vec<(Transport, u64, &'static str)> = vec![
        (Transport::Arg, 0, "arg-newlines"),
        (Transport::Stdin, rng.next_u64() | 1, "stdin-mixed"),
    ];
    if n > 0 {
        out.push((Transport::Split(rng.usize_below(n + 1)), rng.next_u64() | 1, "split"));
    }
    // (a control character cannot be typed into the line editor: a Tab key is not a tab in the
    // line)
    let typable = !scn.script.iter().any(|i| i.render().chars().any(|c| (c as u32) < 0x20));
    if typable {
        out.push((Transport::Terminal, rng.next_u64() | 1, "terminal"));
    }
    out.retain(|(t, s, _)| !(*t == scn.transport && *s == scn.sep_seed));
    out
}

impl Check for C14 {
    fn id(&self) -> &'static str {
        ID
    }
    fn world(&self) -> &'static str {
        "A (in-process debugger sessions delivered through argument, stdin, split and simulated-terminal transports)"
    }
    fn runs(&self, tier: Tier) -> u64 {
        match tier {
            Tier::Quick => 6_000,
            Tier::Thorough => 600_000,
        }
    }
    fn generate(&self, seed: u64, index: u64) -> J {
        // One run in 40 is repeated through the shipped binary with a real pipe (world B)
        let scn = scenario(seed, index);
        // The shipped binary for one script in 40, and for every script that holds a backslash or
        // a very long line (the front end of the binary handles the argument before the debugger
        // sees it)
        let special = scn.script.iter().any(|i| {
            let line = i.render();
            line.contains('\\') || line.len() > 1000
        });
        scn.to_json().set("world_b", index % 40 == 7 || special)
    }
    fn fixed_scenarios(&self, _tier: Tier) -> Vec<J> {
        // The undocumented `sudo` command (known finding): one deterministic probe
        let mut scn = scenario(0, 0);
        scn.script = vec![Item {
            cmd: Cmd::Sudo,
            spell: 0,
        }];
        scn.transport = Transport::Arg;
        scn.sep_seed = 0;
        vec![scn.to_json()]
    }

    fn execute(&self, cap: &Capture, scenario: &J) -> Report {
        let Some(scn) = DebugScenario::from_json(scenario) else {
            let mut r = Report::default();
            r.discarded = Some("bad-scenario".into());
            return r;
        };
        // Base delivery under the full lockstep oracle (owns parse results and rejected lines)
        let mut report = session_report(ID, cap, &scn);
        if report.discarded.is_some() {
            return report;
        }
        report.nontrivial = !scn.script.is_empty();
        let has_sudo = scn.script.iter().any(|i| matches!(i.cmd, Cmd::Sudo));
        if has_sudo {
            return report;
        }
        if report.counters.contains_key("probe:input_trap_executed_in_session") {
            // The program read standard input (a `move` planted GETC/IN): program and debugger
            // share that stream, so deliveries through stdin legitimately differ
            return report;
        }

        // Transport independence: the same script through the other transports
        let base = run_delivery(cap, &scn, &scn.transport, scn.sep_seed, &scn.script);
        let base_meaning = meaning(&base);
        let mut hash: Vec<u8> = Vec::new();
        for (transport, sep_seed, name) in alternates(&scn) {
            let mut script = scn.script.clone();
            let terminal = transport == Transport::Terminal;
            if terminal && !script.iter().any(|i| matches!(i.cmd, Cmd::Quit | Cmd::Exit)) {
                // A terminal has no end of input: what end of input means must be typed
                script.push(Item {
                    cmd: Cmd::Quit,
                    spell: 0,
                });
            }
            let other = run_delivery(cap, &scn, &transport, sep_seed, &script);
            report.sim_ticks += other.ticks;
            report.hit(&format!("fault:delivery_{}", name));
            let other_meaning = meaning(&other);
            for line in &other_meaning {
                hash.extend_from_slice(line.as_bytes());
            }
            let same_meaning = other_meaning == base_meaning;
            if !same_meaning {
                let at = (0..other_meaning.len().max(base_meaning.len()))
                    .find(|i| other_meaning.get(*i) != base_meaning.get(*i))
                    .unwrap_or(0);
                let what = match (&other.end, &base.end) {
                    (End::Panic(_), _) => format!("panic:{}", crate::props::c03::end_key(&other.end)),
                    _ => "meaning".to_string(),
                };
                report.violations.push(Violation::new(
                    ID,
                    format!("C14/transport/{}/{}", name, what),
                    format!(
                        "delivery {} differs from the base delivery at event {}: {:?} vs {:?}",
                        name,
                        at,
                        other_meaning.get(at).map(|s| s.chars().take(160).collect::<String>()),
                        base_meaning.get(at).map(|s| s.chars().take(160).collect::<String>())
                    ),
                ));
                continue;
            }
            if !terminal {
                if other.stdout != base.stdout {
                    report.violations.push(Violation::new(
                        ID,
                        format!("C14/transport/{}/stdout", name),
                        format!("stdout differs between deliveries ({} vs base)", name),
                    ));
                }
                if scn.minimal && other.stderr != base.stderr {
                    let at = (0..other.stderr.len().max(base.stderr.len()))
                        .find(|i| other.stderr.get(*i) != base.stderr.get(*i))
                        .unwrap_or(0);
                    report.violations.push(Violation::new(
                        ID,
                        format!("C14/transport/{}/stderr", name),
                        format!(
                            "minimal-mode stderr differs at byte {}: {:?} vs {:?}",
                            at,
                            String::from_utf8_lossy(&other.stderr[at.saturating_sub(20).min(other.stderr.len())..(at + 20).min(other.stderr.len())]),
                            String::from_utf8_lossy(&base.stderr[at.saturating_sub(20).min(base.stderr.len())..(at + 20).min(base.stderr.len())])
                        ),
                    ));
                }
            }
        }
        report.log_hash ^= fnv(&hash);

        // ----- world-B cross-check: the shipped binary, --command argument and a real pipe -----
        if scenario.get_bool("world_b").unwrap_or(false) && report.violations.is_empty() {
            cross_check_world_b(&scn, &base, &mut report);
        }
        report
    }

    fn shrink(&self, scenario: &J) -> Vec<J> {
        match DebugScenario::from_json(scenario) {
            Some(scn) => shrink_debug(&scn).into_iter().map(|s| s.to_json()).collect(),
            None => Vec::new(),
        }
    }
    fn rule(&self) -> String {
        "Each run draws a small terminating program and a script of 0..12 commands from the language mix (every command and alias in random letter case; integers with optional sign before or after the prefix, optional single leading zero, #/x/o/b prefixes, leading zeros; registers; label+-offset; ^offset; 18% lines that the documented grammar rejects: fixed malformed lines, integer tokens broken in a known way, documented misspellings, multi-byte characters). The base delivery (argument, stdin or split, random `;`/newline separators with blank commands, end of input at a command boundary) runs under the lockstep oracle, which compares the real parser's result (variant, numbers, names) with the generator-known meaning and requires rejected lines to be rejected without effect. Then the same script is delivered through every other transport configuration (all in --command with newlines, all on stdin with mixed separators, split after a random k, typed on the simulated terminal) and the sessions' meanings (accepted commands, rejected lines, pause snapshots, instruction counts, end, final registers; plus stdout and minimal-mode stderr for non-terminal transports) must be identical. Non-trivial: non-empty script; distinct = distinct hash of command kinds, instructions per command, end and transport. The exhaustive short-string enumeration of the quantifier is not attempted (sampling of the input space).".into()
    }
    fn assumptions(&self) -> Vec<String> {
        vec![
            "help.txt and the doc comments of the integer/label/register parsers are the documented grammar; the meaning of each generated command is known by construction".into(),
            "the parsed command is observed as the Debug text of the real Command value (variant name, numbers, quoted strings, location discriminators)".into(),
            "the command stream ends only on character boundaries; a stream cut inside a multi-byte character is not a finite script".into(),
            "for the terminal delivery only meaning is compared: an interactive terminal legitimately adds its own newlines and prompt drawing".into(),
        ]
    }
    fn components(&self) -> J {
        J::obj()
            .set(
                "real",
                J::Arr(
                    ["command parser (names, integers, labels, registers, locations)", "Argument reader", "Stdin reader incl. UTF-8 reassembly (minus the read syscall)", "Terminal::read/read_line/get_next_command/handle_key", "CommandReader ordering", "Debugger command arms"]
                        .iter()
                        .map(|s| J::from(*s))
                        .collect(),
                ),
            )
            .set(
                "stub",
                J::Arr(
                    ["OS stdin read", "crossterm key events and raw mode (simulated key device)", "history file (absent)", "process::exit", "fd 1/2"]
                        .iter()
                        .map(|s| J::from(*s))
                        .collect(),
                ),
            )
    }
    fn expected_probes(&self) -> Vec<&'static str> {
        vec![
            "fault:rejected_line",
            "fault:delivery_terminal",
            "fault:delivery_split",
            "fault:delivery_stdin-mixed",
            "fault:eof_script",
            "fault:separator_mix",
        ]
    }
}

/// Deliver the script to the real `lace debug` process through --command, a real pipe, and a
/// split of both; all deliveries must agree with each other and with the in-process session
/// (exit status, program output on stdout, minimal-mode stderr).
fn cross_check_world_b(scn: &DebugScenario, base: &crate::world_a::Outcome, report: &mut Report) {
    use crate::session::deliver;
    use crate::world_b::{run_lace, Run, Scratch};
    let scratch = Scratch::new("c14");
    let asm = scratch.path("p.asm");
    if std::fs::write(&asm, scn.program.render()).is_err() {
        return;
    }
    let expected_status = match &base.end {
        End::Returned => Some(0),
        End::Exit(code) => Some(*code),
        End::Panic(_) => Some(101),
        _ => None,
    };
    let n = scn.script.len();
    let deliveries = [
        (Transport::Arg, 0u64, "argument"),
        (Transport::Stdin, scn.sep_seed, "pipe"),
        (Transport::Split(n / 2), scn.sep_seed ^ 0x55, "split"),
    ];
    let mut first: Option<(Vec<u8>, Vec<u8>, String)> = None;
    for (transport, sep_seed, name) in deliveries {
        let d = deliver(&scn.script, &transport, sep_seed);
        let mut args: Vec<std::ffi::OsString> = vec!["debug".into(), asm.clone().into_os_string()];
        if scn.minimal {
            args.push("--minimal".into());
        }
        if scn.stack {
            args.push("-f".into());
            args.push("stack".into());
        }
        if let Some(arg) = &d.arg {
            // A value starting with `-` has to be attached with `=`, like any option value on a
            // command line (shell-level syntax, not part of the command language)
            if arg.starts_with('-') || sep_seed & 4 != 0 {
                args.push(format!("--command={}", arg).into());
            } else {
                args.push("--command".into());
                args.push(arg.into());
            }
        }
        let p = run_lace(
            &scratch,
            &Run {
                args,
                cwd: &scratch.dir,
                stdin: &d.stdin,
                plan: None,
                watch: None,
                rlimit_fsize: None,
            },
        );
        report.count("processes", 1);
        report.hit(&format!("fault:real_process_delivery_{}", name));
        // Everything after the `Running` line is the session (the lines before name the file)
        let cut = |out: &[u8]| -> Vec<u8> { crate::world_b::program_output(out).unwrap_or_else(|| out.to_vec()) };
        let stdout = cut(&p.stdout);
        let label = p.label();
        if let Some(status) = expected_status {
            if p.status != Some(status) || p.hang {
                report.violations.push(Violation::new(
                    ID,
                    format!("C14/world-b/{}/status", name),
                    format!("real process ended with {}, the in-process session with {}", label, base.end.label()),
                ));
                return;
            }
            if stdout != base.stdout {
                report.violations.push(Violation::new(
                    ID,
                    format!("C14/world-b/{}/stdout", name),
                    format!(
                        "stdout of the real process {:?} differs from the in-process session {:?}",
                        String::from_utf8_lossy(&stdout).chars().take(80).collect::<String>(),
                        String::from_utf8_lossy(&base.stdout).chars().take(80).collect::<String>()
                    ),
                ));
                return;
            }
        }
        match &first {
            None => first = Some((stdout, p.stderr.clone(), label)),
            Some((out0, err0, label0)) => {
                if &label != label0 || &stdout != out0 || (scn.minimal && &p.stderr != err0) {
                    report.violations.push(Violation::new(
                        ID,
                        format!("C14/world-b/{}/differs-from-argument", name),
                        format!("delivery {} through the real process differs from the --command delivery ({} vs {})", name, label, label0),
                    ));
                    return;
                }
            }
        }
    }
}
