//! World B'': the shipped `lace watch` process on a real directory.
//!
//! World C runs the call sequence of the watch closure in-process; the closure itself lives in
//! the binary (`main.rs`) and is only ever executed here: the file is rewritten version by
//! version, the real file-system notifications, the debouncer and the closure do their work, and
//! every re-check the process prints is compared with a fresh `lace check` of the same text.
//!
//! Pacing is by feedback: a version is only written after the report of the previous one has
//! been seen. The oracle is "eventually equal": notifications may come in bursts (one save is
//! several events, each of which re-reads the file), so the latest report has to become the
//! fresh verdict of the text on disk within the guard; reports of half-written files in between
//! are legitimate.

use std::os::fd::AsRawFd;
use std::process::{Command, Stdio};
use std::time::{Duration, Instant};

use crate::world_b::{lace_bin, run_lace, Run, Scratch};

pub const REPORT_GUARD: Duration = Duration::from_secs(6);
const REWRITE_AFTER: Duration = Duration::from_millis(2500);
const SETTLED_AFTER: Duration = Duration::from_millis(1600);

#[derive(Debug, Default)]
pub struct WatchRun {
    /// Per version: the verdict the watcher finally showed (None: none within the guard).
    pub seen: Vec<Option<String>>,
    /// Per version: the verdict of a fresh `lace check`.
    pub fresh: Vec<String>,
    /// Saves that had to be repeated because no notification came.
    pub rewrites: u32,
    /// Reports printed in total (a save is usually more than one notification).
    pub reports: usize,
    pub died: Option<String>,
    /// The watcher ended when it was shown a text on which the assembler crashes.
    pub ended_by_assembler_crash: bool,
    pub spawn_error: Option<String>,
}

fn set_nonblocking(fd: i32) {
    unsafe {
        let flags = libc::fcntl(fd, libc::F_GETFL);
        libc::fcntl(fd, libc::F_SETFL, flags | libc::O_NONBLOCK);
    }
}

fn drain(fd: i32, into: &mut Vec<u8>) {
    let mut buf = [0u8; 8192];
    loop {
        let n = unsafe { libc::read(fd, buf.as_mut_ptr() as *mut libc::c_void, buf.len()) };
        if n <= 0 {
            break;
        }
        into.extend_from_slice(&buf[..n as usize]);
    }
}

fn normalise(text: &str) -> String {
    let t = text.trim();
    t.strip_prefix("Error: ").unwrap_or(t).trim().to_string()
}

/// The line by which `lace check` says that a source is fine: learned from the tree under test
/// (the status lines two different valid sources have in common), so that rewording it or
/// printing more around it does not matter.
fn success_marker() -> &'static String {
    static MARKER: std::sync::OnceLock<String> = std::sync::OnceLock::new();
    MARKER.get_or_init(|| {
        let scratch = Scratch::new("c19cal");
        let mut outputs: Vec<Vec<String>> = Vec::new();
        for source in ["    halt\n", "Cal_a add r1, r1, #1\n    and r2, r2, #0\n    halt\nCal_b .fill x0007\n"] {
            let dir = scratch.path("cal");
            let _ = std::fs::create_dir_all(&dir);
            if std::fs::write(dir.join("f.asm"), source).is_err() {
                return "Success".to_string();
            }
            let p = run_lace(
                &scratch,
                &Run {
                    args: vec!["check".into(), "f.asm".into()],
                    cwd: &dir,
                    stdin: b"",
                    plan: None,
                    watch: None,
                    rlimit_fsize: None,
                },
            );
            if p.status != Some(0) {
                return "Success".to_string();
            }
            outputs.push(String::from_utf8_lossy(&p.stdout).lines().map(|l| l.trim().to_string()).filter(|l| !l.is_empty() && !l.contains("f.asm")).collect());
        }
        outputs[0].iter().rev().find(|l| outputs[1].contains(l)).cloned().unwrap_or_else(|| "Success".to_string())
    })
}

/// What the text printed since a save amounts to: `Ok` if the expected verdict is the last of
/// the known verdicts in it, `Err` with what is shown last otherwise.
fn shown_verdict(new_output: &str, expected: &str, known: &[String]) -> Result<(), Option<String>> {
    let marker = |verdict: &str| -> String { if verdict == "SUCCESS" { success_marker().clone() } else { verdict.to_string() } };
    let mut last: Option<(usize, &String)> = None;
    for v in known {
        if v == "PANIC" {
            continue;
        }
        if let Some(at) = new_output.rfind(&marker(v)) {
            // (the later one wins; of two at the same place, the longer)
            if last.is_none_or(|(p, w)| at > p || (at == p && marker(v).len() > marker(w).len())) {
                last = Some((at, v));
            }
        }
    }
    match last {
        Some((_, v)) if v == expected => Ok(()),
        Some((_, v)) => Err(Some(v.clone())),
        None => Err(None),
    }
}

/// Fresh verdict of one text by `lace check` in its own process. `None`: the assembler itself
/// crashed on it (not this property's subject).
pub fn fresh_check(scratch: &Scratch, text: &str) -> Option<String> {
    let dir = scratch.path("fresh");
    let _ = std::fs::create_dir_all(&dir);
    let file = dir.join("f.asm");
    std::fs::write(&file, text).ok()?;
    let p = run_lace(
        scratch,
        &Run {
            args: vec!["check".into(), file.into_os_string()],
            cwd: &dir,
            stdin: b"",
            plan: None,
            watch: None,
            rlimit_fsize: None,
        },
    );
    match p.status {
        Some(0) => Some("SUCCESS".to_string()),
        Some(101) | None => None,
        Some(_) => Some(normalise(&String::from_utf8_lossy(&p.stderr))),
    }
}

pub fn run_watch(scratch: &Scratch, texts: &[String], rename_saves: &[bool], pin_mtime: bool) -> WatchRun {
    let mut run = WatchRun::default();
    for text in texts {
        match fresh_check(scratch, text) {
            Some(v) => run.fresh.push(v),
            // The assembler itself crashes on this text: a watcher that dies of it ends the
            // history, one that survives is judged on the versions that follow
            None => run.fresh.push("PANIC".to_string()),
        }
    }
    let texts = &texts[..run.fresh.len()];
    let dir = scratch.path("watched");
    let _ = std::fs::create_dir_all(&dir);
    let file = dir.join("f.asm");
    if std::fs::write(&file, "    halt\n").is_err() {
        run.spawn_error = Some("write".into());
        return run;
    }
    let mut command = Command::new(lace_bin());
    unsafe {
        use std::os::unix::process::CommandExt;
        command.pre_exec(|| {
            // The watcher never ends by itself: it must not outlive a harness that is killed
            libc::prctl(libc::PR_SET_PDEATHSIG, libc::SIGKILL);
            Ok(())
        });
    }
    // One screen: standard output and standard error of the watcher arrive on one pipe, in
    // the order they were written (which of the two a verdict is printed to is not the subject)
    let mut fds = [0 as std::os::fd::RawFd; 2];
    if unsafe { libc::pipe2(fds.as_mut_ptr(), libc::O_CLOEXEC) } != 0 {
        run.spawn_error = Some("pipe".into());
        return run;
    }
    let (screen_r, screen_w) = unsafe {
        use std::os::fd::FromRawFd;
        (std::os::fd::OwnedFd::from_raw_fd(fds[0]), std::os::fd::OwnedFd::from_raw_fd(fds[1]))
    };
    let Ok(screen_w2) = screen_w.try_clone() else {
        run.spawn_error = Some("dup".into());
        return run;
    };
    let mut child = match command
        .arg("watch")
        .arg("f.asm")
        .current_dir(&dir)
        .env_clear()
        .env("NO_COLOR", "1")
        .env("HOME", &scratch.dir)
        .env("PATH", "/usr/bin:/bin")
        .stdin(Stdio::null())
        .stdout(Stdio::from(screen_w))
        .stderr(Stdio::from(screen_w2))
        .spawn()
    {
        Ok(c) => c,
        Err(e) => {
            run.spawn_error = Some(format!("spawn: {}", e));
            return run;
        }
    };
    // (the write ends live on in the command until it is dropped)
    drop(command);
    let out = screen_r;
    set_nonblocking(out.as_raw_fd());
    let mut stdout: Vec<u8> = Vec::new();

    // The first screen (whatever it says): some output, then a moment of quiet
    let started = Instant::now();
    let mut last_len = 0usize;
    let mut last_change = Instant::now();
    loop {
        drain(out.as_raw_fd(), &mut stdout);
        if stdout.len() != last_len {
            last_len = stdout.len();
            last_change = Instant::now();
        }
        if !stdout.is_empty() && last_change.elapsed() > Duration::from_millis(150) {
            break;
        }
        if let Ok(Some(status)) = child.try_wait() {
            run.died = Some(format!("watcher ended with {:?} before watching: {}", status.code(), String::from_utf8_lossy(&stdout)));
            return run;
        }
        if started.elapsed() > REPORT_GUARD {
            run.died = Some("no first screen".into());
            let _ = child.kill();
            let _ = child.wait();
            return run;
        }
        std::thread::sleep(Duration::from_millis(2));
    }

    let save = |text: &str, by_rename: bool| {
        if by_rename {
            // The way editors save: a new file moved over the old one
            let tmp = dir.join(".f.asm.swp");
            let _ = std::fs::write(&tmp, text);
            let _ = std::fs::rename(&tmp, &file);
        } else {
            let _ = std::fs::write(&file, text);
        }
        if pin_mtime {
            // A file system with coarse time stamps, or a tool that restores them (cp -p, an
            // archive): every version carries the same modification time
            if let Ok(c) = std::ffi::CString::new(file.as_os_str().as_encoded_bytes()) {
                let stamp = libc::timespec {
                    tv_sec: 1_700_000_000,
                    tv_nsec: 0,
                };
                let times = [stamp, stamp];
                unsafe {
                    libc::utimensat(libc::AT_FDCWD, c.as_ptr(), times.as_ptr(), 0);
                }
            }
        }
    };
    let mut known: Vec<String> = run.fresh.clone();
    known.push("SUCCESS".to_string());
    known.sort();
    known.dedup();
    'versions: for (i, text) in texts.iter().enumerate() {
        let by_rename = rename_saves.get(i).copied().unwrap_or(false);
        let before = stdout.len();
        save(text, by_rename);
        let mut last_save = Instant::now();
        let started = Instant::now();
        let mut rewrites_here = 0;
        let mut last_len = stdout.len();
        let mut last_output = Instant::now();
        loop {
            drain(out.as_raw_fd(), &mut stdout);
                if stdout.len() != last_len {
                last_len = stdout.len();
                last_output = Instant::now();
            }
            let new_output = String::from_utf8_lossy(&stdout[before..]).into_owned();
            if run.fresh[i] == "PANIC" {
                if !new_output.is_empty() && last_output.elapsed() > SETTLED_AFTER {
                    run.seen.push(Some("PANIC".to_string()));
                    break;
                }
                if let Ok(Some(_)) = child.try_wait() {
                    // It died of the crash: nothing more to compare
                    run.seen.push(None);
                    run.ended_by_assembler_crash = true;
                    break 'versions;
                }
                if started.elapsed() > REPORT_GUARD {
                    run.seen.push(None);
                    break;
                }
                std::thread::sleep(Duration::from_millis(3));
                continue;
            }
            let shown = shown_verdict(&new_output, &run.fresh[i], &known);
            if shown.is_ok() {
                run.seen.push(Some(run.fresh[i].clone()));
                break;
            }
            if let Ok(Some(status)) = child.try_wait() {
                drain(out.as_raw_fd(), &mut stdout);
                        run.died = Some(format!(
                    "watcher ended with {:?} at version {}: {}",
                    status.code(),
                    i,
                    String::from_utf8_lossy(&stdout).lines().last().unwrap_or("")
                ));
                run.seen.push(shown.err().flatten());
                break 'versions;
            }
            if new_output.is_empty() && last_save.elapsed() > REWRITE_AFTER && rewrites_here < 4 {
                // No notification at all (the watch may not have been set up yet when the first
                // version was saved): save again, as a user would
                rewrites_here += 1;
                run.rewrites += 1;
                save(text, by_rename);
                last_save = Instant::now();
            }
            // Something was printed for this save and nothing has followed for three debounce
            // delays: that is the verdict the user is left with
            let settled = !new_output.is_empty() && last_output.elapsed() > SETTLED_AFTER;
            if settled || started.elapsed() > REPORT_GUARD + REWRITE_AFTER * rewrites_here {
                run.seen.push(match shown {
                    Err(Some(other)) => Some(other),
                    _ if new_output.trim().is_empty() => None,
                    _ => Some(format!("(no known verdict) {}", new_output.trim().lines().last().unwrap_or(""))),
                });
                break 'versions;
            }
            std::thread::sleep(Duration::from_millis(3));
        }
    }
    run.reports = stdout.windows(4).filter(|w| w == b"\x1b[2J").count();
    let _ = child.kill();
    let _ = child.wait();
    run
}
