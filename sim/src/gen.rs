//! Seeded generator of LC-3 programs that terminate by construction.
//!
//! A program is a list of statements with known word offsets, so every label address is known
//! to the generator; the text is rendered with a seeded layout (keyword case, separators,
//! comments, blank lines). Termination is confirmed on the reference VM by the caller.

use crate::rng::Rng;

#[derive(Clone, Debug, PartialEq)]
pub struct Stmt {
    pub labels: Vec<String>,
    /// Mnemonic/directive and operands, operands separated by ", ".
    pub text: String,
    /// Words this statement occupies.
    pub words: usize,
    /// Number of `.break` directives written in front of it.
    pub breaks: u8,
}

#[derive(Clone, Debug, PartialEq)]
pub struct Program {
    pub orig: Option<u16>,
    pub stmts: Vec<Stmt>,
    /// `.break` directives after the last statement.
    pub trailing_breaks: u8,
    pub stack: bool,
    /// Uses GETC/IN.
    pub uses_input: bool,
    pub layout_seed: u64,
    /// Families used, for coverage accounting.
    pub features: Vec<&'static str>,
}

#[derive(Clone, Debug)]
pub struct GenOpts {
    pub stack: bool,
    pub minimal: bool,
    pub allow_input: bool,
    pub allow_exception_endings: bool,
    pub allow_breaks: bool,
    pub max_blocks: usize,
    /// Force a particular origin choice (None = seeded choice).
    pub high_origin: bool,
    /// Append a pad and a few statements (with `.break`s) so that the image extends beyond
    /// 0xFE00: statements, labels and predefined breakpoints outside user space.
    pub tail_beyond_user: bool,
}

impl Program {
    pub fn origin(&self) -> u16 {
        self.orig.unwrap_or(0x3000)
    }

    pub fn n_words(&self) -> usize {
        self.stmts.iter().map(|s| s.words).sum()
    }

    /// Word offset of each statement.
    pub fn offsets(&self) -> Vec<usize> {
        let mut out = Vec::with_capacity(self.stmts.len());
        let mut at = 0;
        for s in &self.stmts {
            out.push(at);
            at += s.words;
        }
        out
    }

    pub fn labels(&self) -> Vec<(String, u16)> {
        let mut out = Vec::new();
        let mut at = 0usize;
        for s in &self.stmts {
            for l in &s.labels {
                out.push((l.clone(), self.origin().wrapping_add(at as u16)));
            }
            at += s.words;
        }
        out
    }

    pub fn label_addr(&self, name: &str) -> Option<u16> {
        self.labels().into_iter().find(|(l, _)| l == name).map(|(_, a)| a)
    }

    /// Addresses marked by `.break` directives (origin + word index of the next statement).
    pub fn break_addrs(&self) -> Vec<u16> {
        let mut out = Vec::new();
        let mut at = 0usize;
        for s in &self.stmts {
            if s.breaks > 0 {
                out.push(self.origin().wrapping_add(at as u16));
            }
            at += s.words;
        }
        if self.trailing_breaks > 0 {
            out.push(self.origin().wrapping_add(at as u16));
        }
        out
    }

    /// Addresses holding instructions or data of the program (first word of each statement).
    pub fn stmt_addrs(&self) -> Vec<u16> {
        self.offsets()
            .into_iter()
            .map(|o| self.origin().wrapping_add(o as u16))
            .collect()
    }

    pub fn render(&self) -> String {
        let mut rng = Rng::new(self.layout_seed);
        // 0 plain, 1 upper-case keywords, 2 mixed, 3 noisy; seed 0 (used by the shrinker) is plain
        let style = if self.layout_seed == 0 { 0 } else { rng.below(4) };
        let mut out = String::new();
        if style == 3 {
            out.push_str("; generated program\n\n");
        }
        // A `.break` in front of the first statement may also stand in front of `.orig`
        let breaks_before_orig = self.orig.is_some()
            && style != 0
            && self.stmts.first().is_some_and(|s| s.breaks > 0)
            && rng.coin();
        if breaks_before_orig {
            for _ in 0..self.stmts[0].breaks {
                out.push_str(&case(&mut rng, style, ".break"));
                out.push('\n');
            }
        }
        if let Some(orig) = self.orig {
            let dir = case(&mut rng, style, ".orig");
            if rng.coin() {
                out.push_str(&format!("{} x{:04X}\n", dir, orig));
            } else {
                out.push_str(&format!("{} 0x{:x}\n", dir, orig));
            }
        }
        for (si, s) in self.stmts.iter().enumerate() {
            for _ in 0..(if si == 0 && breaks_before_orig { 0 } else { s.breaks }) {
                out.push_str(&case(&mut rng, style, ".break"));
                out.push('\n');
            }
            for (i, l) in s.labels.iter().enumerate() {
                out.push_str(l);
                if style >= 2 && rng.coin() {
                    out.push(':');
                }
                // Only the last label may share the line with the statement
                if i + 1 < s.labels.len() || (style == 3 && rng.chance(1, 3)) {
                    out.push('\n');
                } else {
                    out.push(' ');
                }
            }
            if s.labels.is_empty() {
                out.push_str("    ");
            }
            out.push_str(&render_stmt(&mut rng, style, &s.text));
            if style == 3 && rng.chance(1, 4) {
                out.push_str(" ; note");
            }
            out.push('\n');
            if style == 3 && rng.chance(1, 6) {
                out.push('\n');
            }
        }
        for _ in 0..self.trailing_breaks {
            out.push_str(&case(&mut rng, style, ".break"));
            out.push('\n');
        }
        if rng.chance(1, 3) {
            out.push_str(&case(&mut rng, style, ".end"));
            out.push('\n');
        }
        out
    }
}

fn case(rng: &mut Rng, style: u64, word: &str) -> String {
    match style {
        1 => word.to_ascii_uppercase(),
        2 | 3 => {
            if rng.chance(1, 3) {
                word.to_ascii_uppercase()
            } else {
                word.to_string()
            }
        }
        _ => word.to_string(),
    }
}

fn render_stmt(rng: &mut Rng, style: u64, text: &str) -> String {
    // Strings must not be touched
    if text.starts_with(".stringz") {
        let (dir, rest) = text.split_at(".stringz".len());
        return format!("{}{}", case(rng, style, dir), rest);
    }
    let mut parts = text.splitn(2, ' ');
    let mnemonic = parts.next().unwrap_or("");
    let operands = parts.next().unwrap_or("");
    let mut out = case(rng, style, mnemonic);
    if !operands.is_empty() {
        out.push(' ');
        let sep = match (style, rng.below(3)) {
            (0, _) => ", ",
            (_, 0) => " ",
            (_, 1) => ",",
            _ => ", ",
        };
        let ops: Vec<&str> = operands.split(", ").collect();
        let rendered: Vec<String> = ops
            .iter()
            .map(|op| {
                // Registers may change case; labels and literals stay
                let bytes = op.as_bytes();
                if bytes.len() == 2 && bytes[0] == b'r' && bytes[1].is_ascii_digit() && style >= 1 && rng.coin() {
                    op.to_ascii_uppercase()
                } else {
                    op.to_string()
                }
            })
            .collect();
        out.push_str(&rendered.join(sep));
    }
    out
}

// ---------------------------------------------------------------------------------------------
// Builder
// ---------------------------------------------------------------------------------------------

struct Fixup {
    /// Index into `data` of the pointer cell whose value is the address of `target`.
    cell: usize,
    target: String,
    offset: i32,
}

struct Builder<'a> {
    rng: &'a mut Rng,
    opts: GenOpts,
    /// Main code.
    main: Vec<Stmt>,
    /// Finished subroutines (each ends with ret/rets).
    subs: Vec<Stmt>,
    /// Subroutines under construction, innermost last.
    sub_stack: Vec<Vec<Stmt>>,
    /// This program's calling convention: CALL/RETS (R7 is the stack pointer) or JSR/RET.
    conv_stack: bool,
    data: Vec<Stmt>,
    fixups: Vec<Fixup>,
    pending_labels: Vec<String>,
    label_counter: u32,
    blocks_left: usize,
    /// r6 is the software stack pointer in this program.
    soft_stack: bool,
    sub_depth: u32,
    uses_input: bool,
    features: Vec<&'static str>,
    /// Labels of generated subroutines that may be called again: (label, is_stack_convention).
    callable: Vec<(String, bool)>,
    /// Registers currently reserved as loop/recursion counters.
    busy: [bool; 8],
    recursion_used: bool,
}

const LABEL_STEMS: [&str; 14] = ["L", "Lp", "S_", "Dat", "msg", "K", "node", "Skip", "T_", "_q", "R0_sav", "r7_", "R5__t", "r1_x"];

impl<'a> Builder<'a> {
    fn fresh(&mut self, hint: &str) -> String {
        self.label_counter += 1;
        let stem = if hint.is_empty() || self.rng.chance(1, 10) {
            // Also names that merely look like registers or integer prefixes
            *self.rng.pick(&LABEL_STEMS)
        } else {
            hint
        };
        format!("{}{}", stem, self.label_counter)
    }

    fn feature(&mut self, name: &'static str) {
        if !self.features.contains(&name) {
            self.features.push(name);
        }
    }

    fn emit_to(&mut self, into_sub: bool, text: String) {
        let labels = std::mem::take(&mut self.pending_labels);
        let breaks = if self.opts.allow_breaks && self.rng.chance(1, 12) {
            if self.rng.chance(1, 4) {
                2
            } else {
                1
            }
        } else {
            0
        };
        let stmt = Stmt {
            labels,
            text,
            words: 1,
            breaks,
        };
        if into_sub {
            self.sub_stack.last_mut().expect("inside a subroutine").push(stmt);
        } else {
            self.main.push(stmt);
        }
    }

    fn data_cell(&mut self, hint: &str, value: u16) -> String {
        let label = self.fresh(hint);
        self.data.push(Stmt {
            labels: vec![label.clone()],
            text: format!(".fill x{:04X}", value),
            words: 1,
            breaks: 0,
        });
        label
    }

    fn data_pointer(&mut self, target: &str, offset: i32) -> String {
        let label = self.fresh("P");
        self.data.push(Stmt {
            labels: vec![label.clone()],
            text: ".fill x0000".to_string(),
            words: 1,
            breaks: 0,
        });
        self.fixups.push(Fixup {
            cell: self.data.len() - 1,
            target: target.to_string(),
            offset,
        });
        label
    }

    fn data_block(&mut self, n: usize) -> String {
        let label = self.fresh("Buf");
        self.data.push(Stmt {
            labels: vec![label.clone()],
            text: format!(".blkw #{}", n),
            words: n,
            breaks: 0,
        });
        label
    }

    fn data_string(&mut self, text: &str, words: usize) -> String {
        let label = self.fresh("msg");
        self.data.push(Stmt {
            labels: vec![label.clone()],
            text: format!(".stringz \"{}\"", text),
            words,
            breaks: 0,
        });
        label
    }

    fn scratch(&mut self) -> usize {
        // r0..r3 are never counters
        self.rng.usize_below(4)
    }

    fn imm5(&mut self) -> i64 {
        *self.rng.pick(&[-16, -15, -8, -2, -1, 0, 1, 2, 3, 7, 14, 15])
    }

    // ----- blocks -----

    fn block(&mut self, sub: bool, depth: u32) {
        if self.blocks_left == 0 {
            return;
        }
        self.blocks_left -= 1;
        let stack = self.opts.stack;
        let weights: [u32; 12] = [
            30,                                              // 0 alu
            14,                                              // 1 ld/st
            8,                                               // 2 ldi/sti
            10,                                              // 3 lea+ldr/str
            if depth < 2 { 12 } else { 0 },                  // 4 counted loop
            if !self.conv_stack && self.sub_depth < 3 { 12 } else { 0 }, // 5 jsr/jsrr subroutine
            if stack && self.conv_stack && self.sub_depth < 3 { 12 } else { 0 }, // 6 call/rets subroutine
            if !self.recursion_used && depth == 0 && self.sub_depth == 0 { 6 } else { 0 }, // 7 recursion
            6,                                               // 8 self-modifying store
            12,                                              // 9 output
            if self.opts.allow_input { 8 } else { 0 },       // 10 input
            8,                                               // 11 conditional skip
        ];
        match self.rng.weighted(&weights) {
            0 => self.alu(sub),
            1 => self.ld_st(sub),
            2 => self.ldi_sti(sub),
            3 => self.lea_ldr_str(sub),
            4 => self.counted_loop(sub, depth),
            5 => self.subroutine(sub, false, depth),
            6 => self.subroutine(sub, true, depth),
            7 => self.recursion(sub),
            8 => self.self_modify(sub),
            9 => self.output(sub),
            10 => self.input(sub),
            _ => self.cond_skip(sub, depth),
        }
    }

    fn alu(&mut self, sub: bool) {
        let n = 1 + self.rng.usize_below(3);
        for _ in 0..n {
            let d = self.scratch();
            let a = self.scratch();
            let text = match self.rng.below(5) {
                0 => format!("add r{}, r{}, #{}", d, a, self.imm5()),
                1 => format!("add r{}, r{}, r{}", d, a, self.scratch()),
                2 => format!("and r{}, r{}, #{}", d, a, self.imm5()),
                3 => format!("and r{}, r{}, r{}", d, a, self.scratch()),
                _ => format!("not r{}, r{}", d, a),
            };
            self.emit_to(sub, text);
        }
        self.feature("alu");
    }

    fn ld_st(&mut self, sub: bool) {
        let value = self.rng.interesting_u16();
        let cell = self.data_cell("Dat", value);
        let r = self.scratch();
        if self.rng.coin() {
            self.emit_to(sub, format!("ld r{}, {}", r, cell));
        } else {
            self.emit_to(sub, format!("st r{}, {}", r, cell));
            let r2 = self.scratch();
            self.emit_to(sub, format!("ld r{}, {}", r2, cell));
        }
        self.feature("ld_st");
    }

    fn ldi_sti(&mut self, sub: bool) {
        let value = self.rng.interesting_u16();
        let cell = self.data_cell("Dat", value);
        let ptr = self.data_pointer(&cell, 0);
        let r = self.scratch();
        if self.rng.coin() {
            self.emit_to(sub, format!("ldi r{}, {}", r, ptr));
        } else {
            self.emit_to(sub, format!("sti r{}, {}", r, ptr));
            let r2 = self.scratch();
            self.emit_to(sub, format!("ldi r{}, {}", r2, ptr));
        }
        self.feature("ldi_sti");
    }

    fn lea_ldr_str(&mut self, sub: bool) {
        let n = 2 + self.rng.usize_below(6);
        let buf = self.data_block(n);
        self.emit_to(sub, format!("lea r4, {}", buf));
        let count = 1 + self.rng.usize_below(3);
        for _ in 0..count {
            let off = self.rng.usize_below(n);
            let r = self.scratch();
            if self.rng.coin() {
                self.emit_to(sub, format!("str r{}, r4, #{}", r, off));
            } else {
                self.emit_to(sub, format!("ldr r{}, r4, #{}", r, off));
            }
        }
        if self.rng.chance(1, 3) {
            // Negative offset from the end of the buffer
            self.emit_to(sub, format!("add r4, r4, #{}", n.min(15)));
            let back = 1 + self.rng.usize_below(n.min(15));
            let r = self.scratch();
            self.emit_to(sub, format!("ldr r{}, r4, #-{}", r, back));
        }
        self.feature("ldr_str");
    }

    fn counter_reg(&mut self) -> Option<usize> {
        for r in [5usize, 6] {
            if r == 6 && self.soft_stack {
                continue;
            }
            if !self.busy[r] {
                return Some(r);
            }
        }
        None
    }

    fn counted_loop(&mut self, sub: bool, depth: u32) {
        let Some(c) = self.counter_reg() else {
            return self.alu(sub);
        };
        self.busy[c] = true;
        let k = 1 + self.rng.below(5);
        self.emit_to(sub, format!("and r{}, r{}, #0", c, c));
        self.emit_to(sub, format!("add r{}, r{}, #{}", c, c, k));
        let top = self.fresh("Lp");
        self.pending_labels.push(top.clone());
        let body = 1 + self.rng.usize_below(3);
        let before = self.len(sub);
        for _ in 0..body {
            self.block(sub, depth + 1);
        }
        if self.len(sub) == before {
            self.alu(sub);
        }
        self.emit_to(sub, format!("add r{}, r{}, #-1", c, c));
        self.emit_to(sub, format!("brp {}", top));
        self.busy[c] = false;
        self.feature("loop");
        if depth >= 1 {
            self.feature("nested_loop");
        }
    }

    fn len(&self, sub: bool) -> usize {
        if sub {
            self.sub_stack.last().map(|s| s.len()).unwrap_or(0)
        } else {
            self.main.len()
        }
    }

    /// Call a (new or existing) subroutine. `stack_conv`: CALL/RETS, otherwise JSR|JSRR/RET.
    fn subroutine(&mut self, sub: bool, stack_conv: bool, depth: u32) {
        if !stack_conv && self.rng.chance(1, 5) {
            return self.inline_argument_sub(sub);
        }
        // Re-use an existing subroutine sometimes (only from main, to keep the call graph acyclic)
        if !sub && self.rng.chance(1, 3) {
            let candidates: Vec<String> = self
                .callable
                .iter()
                .filter(|(_, conv)| *conv == stack_conv)
                .map(|(l, _)| l.clone())
                .collect();
            if !candidates.is_empty() {
                let label = self.rng.pick(&candidates).clone();
                self.emit_call(sub, &label, stack_conv);
                return;
            }
        }
        let label = self.fresh("S_");
        self.emit_call(sub, &label, stack_conv);

        // Body goes to the subroutine area. Counters busy at the call site stay busy.
        let saved_pending = std::mem::take(&mut self.pending_labels);
        self.sub_depth += 1;
        self.sub_stack.push(Vec::new());
        self.pending_labels.push(label.clone());
        let save_cell = if !stack_conv {
            Some(self.data_cell("Sav", 0))
        } else {
            None
        };
        // A JSR-convention subroutine that calls others must save its link
        let mut body_start = self.len(true);
        if let Some(cell) = &save_cell {
            self.emit_to(true, format!("st r7, {}", cell));
            body_start = self.len(true);
        }
        if stack_conv && self.rng.chance(1, 2) {
            let r = self.scratch();
            self.emit_to(true, format!("push r{}", r));
            let n = 1 + self.rng.usize_below(2);
            for _ in 0..n {
                self.block(true, depth.max(1));
            }
            self.emit_to(true, format!("pop r{}", r));
            self.feature("push_pop");
        } else {
            let n = 1 + self.rng.usize_below(3);
            for _ in 0..n {
                self.block(true, depth.max(1));
            }
        }
        if self.len(true) == body_start && self.pending_labels.contains(&label) {
            self.alu(true);
        }
        if let Some(cell) = &save_cell {
            self.emit_to(true, format!("ld r7, {}", cell));
            self.emit_to(true, "ret".to_string());
        } else {
            self.emit_to(true, "rets".to_string());
        }
        self.sub_depth -= 1;
        debug_assert!(self.pending_labels.is_empty());
        let finished = self.sub_stack.pop().expect("subroutine buffer");
        self.subs.extend(finished);
        self.pending_labels = saved_pending;
        self.callable.push((label, stack_conv));
        self.feature(if stack_conv { "call_rets" } else { "jsr_ret" });
        if self.sub_depth >= 1 {
            self.feature("nested_sub");
        }
    }

    fn emit_call(&mut self, sub: bool, label: &str, stack_conv: bool) {
        if stack_conv {
            self.emit_to(sub, format!("call {}", label));
        } else if self.rng.chance(1, 3) {
            self.emit_to(sub, format!("lea r4, {}", label));
            self.emit_to(sub, "jsrr r4".to_string());
            self.feature("jsrr");
        } else {
            self.emit_to(sub, format!("jsr {}", label));
        }
    }

    fn recursion(&mut self, sub: bool) {
        debug_assert!(!sub);
        self.recursion_used = true;
        let stack_conv = self.conv_stack;
        if !stack_conv && !self.soft_stack {
            // Needs r6 as software stack pointer, decided at program start
            return self.alu(sub);
        }
        let c = 5usize;
        if self.busy[c] {
            return self.alu(sub);
        }
        self.busy[c] = true;
        let k = 1 + self.rng.below(4);
        let rec = self.fresh("Rec");
        let done = self.fresh("Rd");
        self.emit_to(false, format!("and r{}, r{}, #0", c, c));
        self.emit_to(false, format!("add r{}, r{}, #{}", c, c, k));
        if stack_conv {
            self.emit_to(false, format!("call {}", rec));
        } else {
            self.emit_to(false, format!("jsr {}", rec));
        }

        let saved_pending = std::mem::take(&mut self.pending_labels);
        self.sub_depth += 3; // no further subroutines inside
        self.sub_stack.push(Vec::new());
        self.pending_labels.push(rec.clone());
        if !stack_conv {
            self.emit_to(true, "add r6, r6, #-1".to_string());
            self.emit_to(true, "str r7, r6, #0".to_string());
        }
        self.alu(true);
        self.emit_to(true, format!("add r{}, r{}, #-1", c, c));
        self.emit_to(true, format!("brnz {}", done));
        if stack_conv {
            self.emit_to(true, format!("call {}", rec));
        } else {
            self.emit_to(true, format!("jsr {}", rec));
        }
        self.pending_labels.push(done);
        if self.rng.coin() {
            self.alu(true);
        }
        if stack_conv {
            self.emit_to(true, "rets".to_string());
        } else {
            self.emit_to(true, "ldr r7, r6, #0".to_string());
            self.emit_to(true, "add r6, r6, #1".to_string());
            self.emit_to(true, "ret".to_string());
        }
        self.sub_depth -= 3;
        let finished = self.sub_stack.pop().expect("subroutine buffer");
        self.subs.extend(finished);
        self.pending_labels = saved_pending;
        self.busy[c] = false;
        self.feature(if stack_conv {
            "recursion_call"
        } else {
            "recursion_jsr"
        });
    }

    /// A slot that is a NOP when first executed and is overwritten *afterwards*: inside a loop its
    /// second visit executes the new instruction - a plain one, or (main program, JSR
    /// convention) a subroutine call through R4, i.e. an instruction of another class.
    fn self_modify_revisited(&mut self, sub: bool) {
        // (one label per statement: a label already waiting for the next statement serves)
        let slot = match self.pending_labels.last() {
            Some(label) => label.clone(),
            None => {
                let label = self.fresh("Slot");
                self.pending_labels.push(label.clone());
                label
            }
        };
        // (a NOP too: BR with no condition bits, whatever its offset; this spelling marks the slot)
        self.emit_to(sub, ".fill x0155".to_string());
        let callee: Option<String> = if !sub && !self.conv_stack {
            self.callable.iter().filter(|(_, conv)| !*conv).map(|(l, _)| l.clone()).next()
        } else {
            None
        };
        let r = self.scratch();
        match callee {
            Some(label) => {
                let newi = self.data_cell("New", 0x4100); // jsrr r4
                self.emit_to(sub, format!("lea r4, {}", label));
                self.emit_to(sub, format!("ld r{}, {}", r, newi));
                self.feature("self_modify_into_call");
            }
            None => {
                let d = self.rng.below(4) as u16;
                let newi = self.data_cell("New", 0x1020 | (d << 9) | (d << 6) | 1); // add rd, rd, #1
                self.emit_to(sub, format!("ld r{}, {}", r, newi));
            }
        }
        self.emit_to(sub, format!("st r{}, {}", r, slot));
        self.feature("self_modify");
    }

    /// A leaf subroutine that takes an argument from the word after the call and returns past
    /// it (JSR convention): the return address is not the address following the call.
    fn inline_argument_sub(&mut self, sub: bool) {
        let label = self.fresh("Ia_");
        let value = self.rng.interesting_u16();
        self.emit_to(sub, format!("jsr {}", label));
        self.emit_to(sub, format!(".fill x{:04X}", value));
        let saved_pending = std::mem::take(&mut self.pending_labels);
        self.sub_depth += 1;
        self.sub_stack.push(Vec::new());
        self.pending_labels.push(label);
        let r = self.scratch();
        self.emit_to(true, format!("ldr r{}, r7, #0", r));
        self.emit_to(true, "add r7, r7, #1".to_string());
        self.emit_to(true, "ret".to_string());
        self.sub_depth -= 1;
        let finished = self.sub_stack.pop().expect("subroutine buffer");
        self.subs.extend(finished);
        self.pending_labels = saved_pending;
        self.feature("inline_argument_sub");
    }

    fn self_modify(&mut self, sub: bool) {
        if self.rng.chance(1, 3) {
            return self.self_modify_revisited(sub);
        }
        // Overwrite a later NOP slot with a pre-encoded harmless instruction
        let d = self.rng.below(4) as u16;
        let encoded: u16 = match self.rng.below(3) {
            0 => 0x1020 | (d << 9) | (d << 6) | 1, // add rd, rd, #1
            1 => 0x903F | (d << 9) | (d << 6),     // not rd, rd
            _ => 0x5020 | (d << 9) | (d << 6) | 7, // and rd, rd, #7
        };
        let newi = self.data_cell("New", encoded);
        let slot = self.fresh("Slot");
        let r = self.scratch();
        self.emit_to(sub, format!("ld r{}, {}", r, newi));
        self.emit_to(sub, format!("st r{}, {}", r, slot));
        if self.rng.coin() {
            self.alu(sub);
        }
        self.pending_labels.push(slot);
        // The slot itself: a NOP (BR with no condition bits)
        self.emit_to(sub, ".fill x0000".to_string());
        self.feature("self_modify");
    }

    /// A string laid across the top of memory (0xFFFx .. 0x000x) at run time, then printed:
    /// string walks must wrap modulo 2^16 like every other address.
    fn wrap_string(&mut self, sub: bool) {
        let before = 1 + self.rng.below(3) as u16; // characters below 0x10000
        let after = 1 + self.rng.below(3) as u16; // characters from 0x0000 on
        let packed = self.rng.coin();
        let start = 0u16.wrapping_sub(before);
        let ptr = self.data_cell("Top", start);
        self.emit_to(sub, format!("ld r4, {}", ptr));
        for i in 0..(before + after) {
            let lo = 0x41 + self.rng.below(26) as u16;
            let word = if packed { ((0x61 + self.rng.below(26) as u16) << 8) | lo } else { lo };
            let cell = self.data_cell("Ch", word);
            let r = self.scratch();
            self.emit_to(sub, format!("ld r{}, {}", r, cell));
            self.emit_to(sub, format!("str r{}, r4, #{}", r, i));
        }
        // Terminator (memory there may hold anything by now)
        let r = self.scratch();
        self.emit_to(sub, format!("and r{}, r{}, #0", r, r));
        self.emit_to(sub, format!("str r{}, r4, #{}", r, before + after));
        self.emit_to(sub, "add r0, r4, #0".to_string());
        self.emit_to(sub, if packed { "putsp" } else { "puts" }.to_string());
        self.feature("string_across_top_of_memory");
    }

    fn output(&mut self, sub: bool) {
        if self.rng.chance(1, 14) {
            return self.wrap_string(sub);
        }
        match self.rng.below(6) {
            0 if self.rng.chance(1, 8) => {
                // A string of one character per word, ended by a word whose low byte is zero but
                // whose high byte is not (data stored over a string); more text and x0000 follow
                let first = self.fresh("Wd");
                let mut first_label = Some(first.clone());
                let n = 1 + self.rng.usize_below(3);
                let mut words: Vec<u16> = (0..n).map(|_| 0x41 + self.rng.below(26) as u16).collect();
                words.push(*self.rng.pick(&[0x4100u16, 0x1200, 0xFF00, 0x0100]));
                words.push(0x61 + self.rng.below(26) as u16);
                words.push(0);
                for word in words {
                    self.data.push(Stmt {
                        labels: first_label.take().into_iter().collect(),
                        text: format!(".fill x{:04X}", word),
                        words: 1,
                        breaks: 0,
                    });
                }
                self.emit_to(sub, format!("lea r0, {}", first));
                self.emit_to(sub, "puts".to_string());
                self.feature("puts_terminator_zero_low_byte");
            }
            0 => {
                let (text, words) = random_string(self.rng);
                let label = self.data_string(&text, words);
                self.emit_to(sub, format!("lea r0, {}", label));
                self.emit_to(sub, "puts".to_string());
                self.feature("puts");
            }
            1 => {
                let ch = *self.rng.pick(&[0x41u16, 0x7A, 0x20, 0x0A, 0x30, 0xE9, 0x1B, 0x7F, 0x141, 0xFF21, 0x0000, 0x0080]);
                let cell = self.data_cell("Ch", ch);
                self.emit_to(sub, format!("ld r0, {}", cell));
                self.emit_to(sub, "out".to_string());
                self.feature("out");
            }
            2 => {
                if self.rng.coin() {
                    let v = self.rng.interesting_u16();
                    let cell = self.data_cell("Num", v);
                    self.emit_to(sub, format!("ld r0, {}", cell));
                }
                self.emit_to(sub, "putn".to_string());
                self.feature("putn");
            }
            3 => {
                // Packed string: two characters per word, low byte first
                let n = 1 + self.rng.usize_below(5);
                let chars: Vec<u8> = (0..n).map(|_| 0x21 + self.rng.below(0x5e) as u8).collect();
                let first = self.fresh("Pk");
                let mut i = 0;
                let mut first_label = Some(first.clone());
                while i < chars.len() {
                    let lo = chars[i] as u16;
                    let hi = if i + 1 < chars.len() { chars[i + 1] as u16 } else { 0 };
                    self.data.push(Stmt {
                        labels: first_label.take().into_iter().collect(),
                        text: format!(".fill x{:04X}", (hi << 8) | lo),
                        words: 1,
                        breaks: 0,
                    });
                    i += 2;
                }
                // Terminator word (also ends an even-length string)
                self.data.push(Stmt {
                    labels: vec![],
                    text: ".fill x0000".to_string(),
                    words: 1,
                    breaks: 0,
                });
                self.emit_to(sub, format!("lea r0, {}", first));
                self.emit_to(sub, "putsp".to_string());
                self.feature("putsp");
            }
            4 => {
                // Raw trap spelling of OUT / PUTS
                let cell = self.data_cell("Ch", 0x2A);
                self.emit_to(sub, format!("ld r0, {}", cell));
                self.emit_to(sub, "trap x21".to_string());
                self.feature("trap_lit");
            }
            _ => {
                self.emit_to(sub, "reg".to_string());
                self.feature("reg");
            }
        }
    }

    fn input(&mut self, sub: bool) {
        if self.rng.coin() {
            self.emit_to(sub, "getc".to_string());
        } else {
            self.emit_to(sub, "in".to_string());
        }
        if self.rng.coin() {
            self.emit_to(sub, "out".to_string());
        }
        self.uses_input = true;
        self.feature("input");
    }

    fn cond_skip(&mut self, sub: bool, depth: u32) {
        let r = self.scratch();
        let skip = self.fresh("Skip");
        self.emit_to(sub, format!("add r{}, r{}, #0", r, r));
        let cond = *self.rng.pick(&["brz", "brn", "brp", "brnz", "brzp", "brnp", "br", "brnzp"]);
        self.emit_to(sub, format!("{} {}", cond, skip));
        let n = 1 + self.rng.usize_below(2);
        let before = self.len(sub);
        for _ in 0..n {
            self.block(sub, depth + 1);
        }
        if self.len(sub) == before {
            self.alu(sub);
        }
        self.pending_labels.push(skip);
        // The label needs a statement to sit on
        self.alu(sub);
        self.feature("cond_branch");
    }
}

fn random_string(rng: &mut Rng) -> (String, usize) {
    if rng.chance(1, 7) {
        // A long line with multi-byte characters at assorted byte positions
        let n = 12 + rng.usize_below(24);
        let mut text = String::new();
        for _ in 0..n {
            text.push(*rng.pick(&['a', 'T', ' ', 'é', '°', 'ü', 'ÿ', 'x', '1', ':']));
        }
        return (text, n + 1);
    }
    let n = rng.usize_below(9);
    let mut text = String::new();
    let mut words = 1; // terminator
    for _ in 0..n {
        match rng.below(16) {
            0 => {
                text.push_str("\\n");
                words += 1;
            }
            1 => {
                text.push_str("\\t");
                words += 1;
            }
            2 => {
                text.push('é');
                words += 1;
            }
            3 => {
                text.push(' ');
                words += 1;
            }
            4 => {
                text.push(';');
                words += 1;
            }
            5 if rng.chance(1, 2) => {
                // A colour escape inside the string: in minimal mode only the ESC itself is
                // dropped (output is stripped per printed character)
                for c in "\u{1b}[31mR".chars() {
                    text.push(c);
                    words += 1;
                }
            }
            _ => {
                let c = loop {
                    let c = (0x21 + rng.below(0x5e) as u8) as char;
                    if c != '"' && c != '\\' {
                        break c;
                    }
                };
                text.push(c);
                words += 1;
            }
        }
    }
    (text, words)
}

#[derive(Clone, Copy, Debug, PartialEq)]
pub enum Ending {
    Halt,
    FallOff,
    MidHalt,
    JumpFFFF,
    JumpBelow,
    JumpAbove,
    UnknownTrap,
    RawStackWord,
    RetFromMain,
}

pub fn generate(rng: &mut Rng, opts: &GenOpts) -> Program {
    let layout_seed = rng.next_u64();
    let conv_stack = opts.stack && rng.chance(2, 3);
    let soft_stack = !conv_stack && rng.chance(1, 2);
    let blocks = 1 + rng.usize_below(opts.max_blocks.max(1));
    let mut b = Builder {
        rng,
        opts: opts.clone(),
        main: Vec::new(),
        subs: Vec::new(),
        sub_stack: Vec::new(),
        conv_stack,
        data: Vec::new(),
        fixups: Vec::new(),
        pending_labels: Vec::new(),
        label_counter: 0,
        blocks_left: blocks * 3,
        soft_stack,
        sub_depth: 0,
        uses_input: false,
        features: Vec::new(),
        callable: Vec::new(),
        busy: [false; 8],
        recursion_used: false,
    };

    if soft_stack {
        let n = 12;
        let buf = b.data_block(n);
        let top = b.data_pointer(&buf, n as i32);
        b.emit_to(false, format!("ld r6, {}", top));
    }

    for _ in 0..blocks {
        b.block(false, 0);
    }

    // Ending
    let mut endings = vec![Ending::Halt, Ending::Halt, Ending::Halt, Ending::FallOff, Ending::MidHalt];
    if opts.allow_exception_endings {
        endings.extend_from_slice(&[
            Ending::JumpFFFF,
            Ending::JumpFFFF,
            Ending::JumpBelow,
            Ending::JumpAbove,
            Ending::UnknownTrap,
            Ending::RetFromMain,
        ]);
        if !opts.stack {
            endings.push(Ending::RawStackWord);
        }
    }
    let mut ending = *b.rng.pick(&endings);

    // Origin
    let orig: Option<u16> = if opts.high_origin {
        Some(0x7F00 + b.rng.below(0xF0) as u16)
    } else {
        match b.rng.below(10) {
            0..=2 => None,
            3 => Some(0x3000),
            4 => Some(0),
            5 => Some(1),
            6 => Some(0x0200),
            7 => Some(0x7000 + b.rng.below(0x0F00) as u16),
            8 => Some(0x7FC0 + b.rng.below(0x30) as u16),
            _ => Some(b.rng.below(0x7800) as u16),
        }
    };
    let origin = orig.unwrap_or(0x3000);
    if ending == Ending::JumpBelow && origin == 0 {
        ending = Ending::JumpFFFF;
    }
    // RET from main ends the program only while R7 still holds its load value: after a JSR it
    // would return into main again, forever
    if ending == Ending::RetFromMain && b.features.iter().any(|f| matches!(*f, "jsr_ret" | "jsrr" | "recursion_jsr")) {
        ending = Ending::Halt;
    }

    match ending {
        Ending::Halt | Ending::FallOff => {}
        Ending::MidHalt => {
            let r = b.scratch();
            let skip = b.fresh("Skip");
            b.emit_to(false, format!("add r{}, r{}, #0", r, r));
            b.emit_to(false, format!("brnp {}", skip));
            b.emit_to(false, "halt".to_string());
            b.pending_labels.push(skip);
            b.alu(false);
            b.feature("mid_halt");
        }
        Ending::JumpFFFF | Ending::JumpBelow | Ending::JumpAbove => {
            let target = match ending {
                Ending::JumpFFFF => 0xFFFF,
                Ending::JumpBelow => origin - 1 - b.rng.below(origin.min(4) as u64) as u16,
                _ => *b.rng.pick(&[0xFE00u16, 0xFE01, 0xFFFE, 0xFF00]),
            };
            let cell = b.data_cell("K", target);
            b.emit_to(false, format!("ld r1, {}", cell));
            b.emit_to(false, "jmp r1".to_string());
            b.feature(match ending {
                Ending::JumpFFFF => "jump_ffff",
                Ending::JumpBelow => "jump_below",
                _ => "jump_above",
            });
        }
        Ending::UnknownTrap => {
            let v = *b.rng.pick(&[0x00u16, 0x1F, 0x28, 0x30, 0x7F]);
            b.emit_to(false, format!("trap x{:02X}", v));
            b.feature("unknown_trap");
        }
        Ending::RawStackWord => {
            b.emit_to(false, ".fill xD400".to_string());
            b.feature("raw_stack_word_flag_off");
        }
        Ending::RetFromMain => {
            // R7 still holds its load value 0xFDFF unless a JSR ran; then this returns into
            // the caller's successor and the program ends by other means. Either way it stops.
            b.emit_to(false, "ret".to_string());
            b.feature("ret_from_main");
        }
    }

    // Layout: [main][halt][subs][data], or for FallOff: [br Main][subs][data][main]
    let Builder {
        mut main,
        subs,
        mut data,
        fixups,
        pending_labels,
        uses_input,
        mut features,
        ..
    } = b;
    debug_assert!(pending_labels.is_empty());

    let mut stmts: Vec<Stmt> = Vec::new();
    let body_words: usize = subs.iter().chain(data.iter()).map(|s| s.words).sum();
    let fall_off = ending == Ending::FallOff && body_words < 200 && !main.is_empty();
    if fall_off {
        let entry = "Main_0".to_string();
        stmts.push(Stmt {
            labels: vec![],
            text: format!("br {}", entry),
            words: 1,
            breaks: 0,
        });
        main[0].labels.insert(0, entry);
        let data_start = 1 + subs.len();
        stmts.extend(subs);
        stmts.append(&mut data);
        stmts.append(&mut main);
        features.push("fall_off_end");
        finish(orig, stmts, fixups, data_start, opts, uses_input, layout_seed, features, rng_trailing(layout_seed, opts))
    } else {
        let needs_halt = !matches!(
            ending,
            Ending::JumpFFFF | Ending::JumpBelow | Ending::JumpAbove | Ending::UnknownTrap | Ending::RawStackWord
        );
        stmts.append(&mut main);
        if needs_halt || !subs.is_empty() {
            // A subroutine area must never be entered by falling through
            // (now and then the HALT is a raw word with the unused bits 11:8 set: still TRAP x25)
            let mut lr = Rng::new(layout_seed ^ 0x4a17);
            let halt_text = if lr.chance(1, 8) {
                format!(".fill xF{:X}25", 1 + lr.below(15))
            } else {
                "halt".to_string()
            };
            stmts.push(Stmt {
                labels: vec![],
                text: halt_text,
                words: 1,
                breaks: 0,
            });
        }
        stmts.extend(subs);
        let data_start = stmts.len();
        stmts.append(&mut data);
        finish(orig, stmts, fixups, data_start, opts, uses_input, layout_seed, features, rng_trailing(layout_seed, opts))
    }
}

fn rng_trailing(layout_seed: u64, opts: &GenOpts) -> u8 {
    if !opts.allow_breaks {
        return 0;
    }
    let mut r = Rng::new(layout_seed ^ 0x7261_696c);
    if r.chance(1, 10) {
        1 + r.below(2) as u8
    } else {
        0
    }
}

#[allow(clippy::too_many_arguments)]
fn finish(
    orig: Option<u16>,
    mut stmts: Vec<Stmt>,
    fixups: Vec<Fixup>,
    data_start: usize,
    opts: &GenOpts,
    uses_input: bool,
    layout_seed: u64,
    features: Vec<&'static str>,
    trailing_breaks: u8,
) -> Program {
    // Data statements carry no `.break`
    let mut program = Program {
        orig,
        stmts: Vec::new(),
        trailing_breaks,
        stack: opts.stack,
        uses_input,
        layout_seed,
        features,
    };
    // Resolve pointer cells now that every offset is known
    let origin = program.origin();
    let mut offsets = Vec::with_capacity(stmts.len());
    let mut at = 0usize;
    for s in &stmts {
        offsets.push(at);
        at += s.words;
    }
    for f in &fixups {
        let target = stmts
            .iter()
            .position(|s| s.labels.iter().any(|l| *l == f.target))
            .expect("fixup target exists");
        let addr = (origin as i32 + offsets[target] as i32 + f.offset) as u16;
        stmts[data_start + f.cell].text = format!(".fill x{:04X}", addr);
    }
    program.stmts = stmts;
    if opts.tail_beyond_user {
        let end = program.origin() as usize + program.n_words();
        if end < 0xFE00 {
            let pad = 0xFE00 - end - 2;
            program.stmts.push(Stmt {
                labels: vec!["Pad_to_top_1".to_string()],
                text: format!(".blkw x{:X}", pad),
                words: pad,
                breaks: 0,
            });
            for (i, text) in ["and r0, r0, #0", "add r0, r0, #1", ".fill x1234", "not r1, r1", ".fill xF025"].iter().enumerate() {
                program.stmts.push(Stmt {
                    labels: if i % 2 == 0 { vec![format!("Tail_{}", i)] } else { vec![] },
                    text: text.to_string(),
                    words: 1,
                    breaks: if i == 1 || i == 3 { 1 } else { 0 },
                });
            }
            program.features.push("tail_beyond_user_space");
        }
    }
    program
}

/// A random raw image (origin word first) for the C03 raw-image family.
pub fn raw_image(rng: &mut Rng) -> Vec<u16> {
    let orig = match rng.below(8) {
        0 => 0x3000,
        1 => 0,
        2 => 0xFDFF - rng.below(8) as u16,
        3 => 0xFD00 + rng.below(0xF0) as u16,
        4 => rng.below(0xFE00) as u16,
        5 => 0x8000 + rng.below(0x100) as u16,
        _ => rng.below(0xFE00) as u16,
    };
    let n = 1 + rng.usize_below(48);
    let mut words = vec![orig];
    for _ in 0..n {
        let w = match rng.below(10) {
            // Bias towards meaningful instructions with small offsets
            0..=5 => {
                let op = *rng.pick(&[0x0u16, 0x1, 0x2, 0x3, 0x4, 0x5, 0x6, 0x7, 0x9, 0xA, 0xB, 0xC, 0xD, 0xE, 0xF]);
                let rest = if op == 0xF {
                    // Mostly known traps without input
                    *rng.pick(&[0x21u16, 0x22, 0x24, 0x25, 0x26, 0x21, 0x26, 0x30])
                } else if rng.coin() {
                    rng.u16() & 0x0FFF
                } else {
                    // small positive/negative PC offsets
                    let off = rng.range(-6, 6) as i16 as u16 & 0x1FF;
                    ((rng.below(8) as u16) << 9) | off
                };
                (op << 12) | rest
            }
            6 => rng.interesting_u16(),
            7 => 0x0000,
            _ => rng.u16(),
        };
        words.push(w);
    }
    words
}
