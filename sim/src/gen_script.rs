//! Seeded generator of debugger scripts with known meaning, tuned per property by a command
//! mix. Faults of world A are generated here: rejected lines, refused targets, breakpoints
//! added between resumes, resets at arbitrary points, end of script at any command boundary.

use crate::gen::Program;
use crate::rng::Rng;
use crate::script::{Cmd, EvalInstr, EvalKind, Item, Loc, Target};

#[derive(Clone, Debug)]
pub struct Mix {
    pub step: u32,
    pub step_into: u32,
    pub step_out: u32,
    pub cont: u32,
    pub break_add: u32,
    pub break_remove: u32,
    pub break_list: u32,
    pub print: u32,
    pub registers: u32,
    pub assembly: u32,
    pub echo: u32,
    pub help: u32,
    pub mv: u32,
    pub goto: u32,
    pub eval: u32,
    pub reset: u32,
    pub garbage: u32,
    /// Share (per 100) of location arguments aimed outside user space / at boundaries.
    pub refused_pct: u32,
}

impl Mix {
    /// Only execution-control and inspection commands (C09).
    pub fn transparent() -> Mix {
        Mix {
            step: 20,
            step_into: 16,
            step_out: 8,
            cont: 12,
            break_add: 12,
            break_remove: 5,
            break_list: 4,
            print: 6,
            registers: 3,
            assembly: 4,
            echo: 2,
            help: 1,
            mv: 0,
            goto: 0,
            eval: 0,
            reset: 0,
            garbage: 3,
            refused_pct: 10,
        }
    }
    /// Stepping (C10).
    pub fn stepping() -> Mix {
        Mix {
            step: 30,
            step_into: 25,
            step_out: 14,
            cont: 12,
            break_add: 10,
            break_remove: 4,
            break_list: 1,
            print: 1,
            registers: 1,
            assembly: 0,
            echo: 0,
            help: 0,
            mv: 0,
            goto: 0,
            eval: 0,
            reset: 0,
            garbage: 1,
            refused_pct: 3,
        }
    }
    /// Breakpoints (C11).
    pub fn breakpoints() -> Mix {
        Mix {
            step: 10,
            step_into: 10,
            step_out: 6,
            cont: 28,
            break_add: 26,
            break_remove: 10,
            break_list: 5,
            print: 1,
            registers: 0,
            assembly: 1,
            echo: 0,
            help: 0,
            mv: 0,
            goto: 2,
            eval: 0,
            reset: 1,
            garbage: 1,
            refused_pct: 6,
        }
    }
    /// Mutating history followed by resets (C12).
    pub fn resets() -> Mix {
        Mix {
            step: 8,
            step_into: 12,
            step_out: 3,
            cont: 8,
            break_add: 4,
            break_remove: 1,
            break_list: 1,
            print: 2,
            registers: 1,
            // (inspection commands between a mutation and the reset: they must not touch the
            // saved initial state either)
            assembly: 5,
            echo: 0,
            help: 0,
            mv: 22,
            goto: 8,
            eval: 10,
            reset: 16,
            garbage: 1,
            refused_pct: 12,
        }
    }
    /// Confined writes (C13).
    pub fn writes() -> Mix {
        Mix {
            step: 4,
            step_into: 8,
            step_out: 1,
            cont: 4,
            break_add: 16,
            break_remove: 8,
            break_list: 4,
            print: 6,
            registers: 3,
            assembly: 3,
            echo: 0,
            help: 0,
            mv: 26,
            goto: 14,
            // evals (accepted and refused) as history: label and PC-offset spellings of later
            // writes resolve through state the evaluator shares
            eval: 5,
            reset: 1,
            garbage: 2,
            refused_pct: 45,
        }
    }
    /// Command language (C14).
    pub fn language() -> Mix {
        Mix {
            step: 5,
            step_into: 8,
            step_out: 2,
            cont: 4,
            break_add: 8,
            break_remove: 4,
            break_list: 4,
            print: 10,
            registers: 4,
            assembly: 6,
            echo: 5,
            help: 2,
            mv: 14,
            goto: 6,
            eval: 4,
            reset: 2,
            garbage: 18,
            refused_pct: 15,
        }
    }
    /// eval (C15).
    pub fn evals() -> Mix {
        Mix {
            step: 4,
            step_into: 10,
            step_out: 1,
            cont: 3,
            break_add: 2,
            break_remove: 0,
            break_list: 0,
            print: 1,
            registers: 1,
            assembly: 0,
            echo: 0,
            help: 0,
            mv: 6,
            goto: 16,
            eval: 50,
            reset: 2,
            garbage: 1,
            refused_pct: 3,
        }
    }
    /// Progress (C16): every resuming command at every kind of PC.
    pub fn progress() -> Mix {
        Mix {
            step: 20,
            step_into: 16,
            step_out: 10,
            cont: 22,
            break_add: 4,
            break_remove: 1,
            break_list: 0,
            print: 1,
            registers: 1,
            assembly: 0,
            echo: 0,
            help: 0,
            mv: 6,
            goto: 4,
            eval: 8,
            reset: 3,
            garbage: 2,
            refused_pct: 5,
        }
    }
}

pub struct Ctx<'a> {
    pub program: &'a Program,
    pub labels: Vec<(String, u16)>,
    pub stmt_addrs: Vec<u16>,
    /// Addresses of instructions (not data) — approximated by statements whose text is not a
    /// directive.
    pub code_addrs: Vec<u16>,
    pub stack: bool,
    pub minimal: bool,
}

impl<'a> Ctx<'a> {
    pub fn new(program: &'a Program, stack: bool, minimal: bool) -> Ctx<'a> {
        let offsets = program.offsets();
        let origin = program.origin();
        let code_addrs = program
            .stmts
            .iter()
            .zip(offsets.iter())
            .filter(|(s, _)| !s.text.starts_with('.'))
            .map(|(_, o)| origin.wrapping_add(*o as u16))
            .collect();
        Ctx {
            program,
            labels: program.labels(),
            stmt_addrs: program.stmt_addrs(),
            code_addrs,
            stack,
            minimal,
        }
    }

    fn origin(&self) -> i64 {
        self.program.origin() as i64
    }
    fn end(&self) -> i64 {
        self.origin() + self.program.n_words() as i64
    }
}

/// An address to aim at: (address as integer, maybe outside 16 bits).
fn pick_address(rng: &mut Rng, ctx: &Ctx, refused_pct: u32, code: bool) -> i64 {
    if rng.below(100) < refused_pct as u64 {
        // Boundaries and beyond
        let o = ctx.origin();
        let choices: [i64; 16] = [
            o - 1,
            o - 2,
            0,
            o,
            0x7FFF,
            0x8000,
            0x8001,
            0xFDFF,
            0xFE00,
            0xFE01,
            0xFFFE,
            0xFFFF,
            0x10000,
            -1,
            ctx.end(),
            0xFDFE,
        ];
        return *rng.pick(&choices);
    }
    if code && !ctx.code_addrs.is_empty() && rng.chance(4, 5) {
        return *rng.pick(&ctx.code_addrs) as i64;
    }
    if !ctx.stmt_addrs.is_empty() && rng.chance(3, 4) {
        return *rng.pick(&ctx.stmt_addrs) as i64;
    }
    // Anywhere in user space
    rng.range(ctx.origin(), 0xFDFF)
}

/// A location in a random form that denotes `addr` (PC forms cannot be aimed: they get small
/// or boundary offsets).
pub fn gen_loc(rng: &mut Rng, ctx: &Ctx, refused_pct: u32, code: bool) -> Loc {
    let addr = pick_address(rng, ctx, refused_pct, code);
    match rng.below(10) {
        0..=3 => Loc::Abs(addr),
        4..=6 if !ctx.labels.is_empty() => {
            let (name, base) = rng.pick(&ctx.labels).clone();
            let off = addr - base as i64;
            if rng.below(100) < refused_pct as u64 / 3 {
                // Offsets at and beyond the signed 16-bit boundary
                let off = *rng.pick(&[0x7FFF, -0x8000, 0x8000, -0x8001, 0xFFFF, 0x10000, -0xFFFF]);
                return Loc::Label { name, off };
            }
            if rng.chance(1, 40) {
                return Loc::Label {
                    name: "NoSuchLabel".to_string(),
                    off: 0,
                };
            }
            Loc::Label { name, off }
        }
        _ => {
            let off = if rng.below(100) < refused_pct as u64 / 2 {
                *rng.pick(&[0x7FFF, -0x8000, 0x8000, -0x7FFF, 0x4000, -0x4000, 0x10000, 0x5000])
            } else {
                rng.range(-4, 10)
            };
            Loc::Pc(off)
        }
    }
}

fn gen_value(rng: &mut Rng) -> i64 {
    match rng.below(8) {
        0 => -(rng.below(0x8000) as i64) - 1,
        1 => *rng.pick(&[0, 1, 0x7FFF, 0x8000, 0xFFFF, -1, -0x8000, 0xF025, 0x0FFF, 0xC1C0]),
        2 => *rng.pick(&[0x10000, 0x12345, -0x8001]), // rejected by the grammar
        _ => rng.u16() as i64,
    }
}

fn enc_alu(op: u16, dr: u16, sr: u16, imm: Option<i64>, sr2: u16) -> u16 {
    match imm {
        Some(i) => (op << 12) | (dr << 9) | (sr << 6) | 0x20 | (i as u16 & 0x1F),
        None => (op << 12) | (dr << 9) | (sr << 6) | sr2,
    }
}

/// Assembler keywords are case-insensitive: vary the case of the mnemonic.
fn recase_mnemonic(rng: &mut Rng, text: &str) -> String {
    let mut parts = text.splitn(2, ' ');
    let head = parts.next().unwrap_or("");
    let head: String = match rng.below(4) {
        0 => head.to_ascii_uppercase(),
        1 => head
            .chars()
            .map(|c| if rng.coin() { c.to_ascii_uppercase() } else { c.to_ascii_lowercase() })
            .collect(),
        _ => head.to_string(),
    };
    match parts.next() {
        Some(rest) => format!("{} {}", head, rest),
        None => head,
    }
}

pub fn gen_eval(rng: &mut Rng, ctx: &Ctx) -> EvalInstr {
    let mut instr = gen_eval_inner(rng, ctx);
    instr.text = recase_mnemonic(rng, &instr.text);
    instr
}

fn gen_eval_inner(rng: &mut Rng, ctx: &Ctx) -> EvalInstr {
    let r = |rng: &mut Rng| rng.below(8) as u16;
    let sep = |rng: &mut Rng| if rng.coin() { ", " } else { " " };
    match rng.below(20) {
        0..=3 => {
            let (d, s) = (r(rng), r(rng));
            let op = if rng.coin() { (1u16, "add") } else { (5u16, "and") };
            if rng.coin() {
                let imm = rng.range(-16, 15);
                let se = sep(rng);
                EvalInstr {
                    text: format!("{} r{}{}r{}{}#{}", op.1, d, se, s, se, imm),
                    kind: EvalKind::Word(enc_alu(op.0, d, s, Some(imm), 0)),
                }
            } else {
                let t = r(rng);
                let se = sep(rng);
                EvalInstr {
                    text: format!("{} r{}{}r{}{}r{}", op.1, d, se, s, se, t),
                    kind: EvalKind::Word(enc_alu(op.0, d, s, None, t)),
                }
            }
        }
        4 => {
            let (d, s) = (r(rng), r(rng));
            EvalInstr {
                text: format!("NOT r{}, r{}", d, s),
                kind: EvalKind::Word(0x903F | (d << 9) | (s << 6)),
            }
        }
        5 | 6 => {
            let (d, b) = (r(rng), r(rng));
            let off = rng.range(-32, 31);
            let (op, name) = if rng.coin() { (6u16, "ldr") } else { (7u16, "str") };
            EvalInstr {
                text: format!("{} r{}, r{}, #{}", name, d, b, off),
                kind: EvalKind::Word((op << 12) | (d << 9) | (b << 6) | (off as u16 & 0x3F)),
            }
        }
        7 => {
            let b = r(rng);
            if b == 7 && rng.coin() {
                EvalInstr {
                    text: "ret".to_string(),
                    kind: EvalKind::Word(0xC1C0),
                }
            } else {
                EvalInstr {
                    text: format!("jmp r{}", b),
                    kind: EvalKind::Word(0xC000 | (b << 6)),
                }
            }
        }
        8 => {
            let (text, word) = *rng.pick(&[("out", 0xF021u16), ("putn", 0xF026), ("puts", 0xF022), ("trap x21", 0xF021), ("putsp", 0xF024)]);
            EvalInstr {
                text: text.to_string(),
                kind: EvalKind::Word(word),
            }
        }
        9 if ctx.minimal => EvalInstr {
            text: "reg".to_string(),
            kind: EvalKind::Word(0xF027),
        },
        9 => {
            // Subroutine jumps: the PC effect is specified, the link value is not
            if !ctx.labels.is_empty() && rng.coin() {
                let (label, _) = rng.pick(&ctx.labels).clone();
                EvalInstr {
                    text: format!("jsr {}", label),
                    kind: EvalKind::JumpLabel { label },
                }
            } else {
                // (not R7: whether JSRR R7 links before or after reading the base differs between
                // ISA editions)
                let b = rng.below(7) as u16;
                EvalInstr {
                    text: format!("jsrr r{}", b),
                    kind: EvalKind::JumpReg { reg: b as u8 },
                }
            }
        }
        10 => {
            let x = r(rng);
            let (text, word) = match rng.below(3) {
                0 => (format!("push r{}", x), 0xD400 | (x << 6)),
                1 => (format!("pop r{}", x), 0xD000 | (x << 6)),
                _ => ("rets".to_string(), 0xD800),
            };
            EvalInstr {
                text,
                // Without the feature the mnemonics do not lex
                kind: if ctx.stack { EvalKind::Word(word) } else { EvalKind::Refused },
            }
        }
        11..=16 if !ctx.labels.is_empty() => {
            let (label, _) = rng.pick(&ctx.labels).clone();
            let reg = r(rng);
            let (op, name) = *rng.pick(&[(0x2u8, "ld"), (0x3, "st"), (0xA, "ldi"), (0xB, "sti"), (0xE, "lea"), (0xE, "LEA"), (0x2, "LD")]);
            EvalInstr {
                text: format!("{} r{}, {}", name, reg, label),
                kind: EvalKind::LabelOp {
                    op,
                    reg: reg as u8,
                    label,
                },
            }
        }
        _ => {
            // Forms that must be refused without effect
            let label = ctx.labels.first().map(|l| l.0.clone()).unwrap_or_else(|| "X9".to_string());
            let other = ctx.labels.last().map(|l| l.0.clone()).unwrap_or_else(|| "Y8".to_string());
            let options: Vec<String> = vec![
                // A label in front of the instruction is not "exactly one instruction"
                format!("{} add r0, r0, #0", label),
                format!("{} add r1, r1, #1", other),
                format!("{}: not r2, r2", other),
                "Fresh_lbl_9 add r0, r0, #0".to_string(),
                format!("{} .fill x0", label),
                format!("br {}", label),
                format!("brz {}", label),
                format!("brnzp {}", label),
                "rti".to_string(),
                "halt".to_string(),
                "br #-2".to_string(),
                "brnzp #5".to_string(),
                "brz x9".to_string(),
                "BRp #-200".to_string(),
                "trap x25".to_string(),
                "trap x30".to_string(),
                "trap x00".to_string(),
                "add r1, r1".to_string(),
                "add r1, r1, #1, r2".to_string(),
                "add r1, r1, #1 add r2, r2, #1".to_string(),
                "not r1".to_string(),
                "add r1, #1, r1".to_string(),
                "add r1, r1, #16".to_string(),
                "ldr r1, r2, #32".to_string(),
                ".fill x3".to_string(),
                ".stringz \"a\"".to_string(),
                "foo r1".to_string(),
                "jsr".to_string(),
                "ld r1".to_string(),
                "ld r1, NoSuchLabel".to_string(),
                "r1".to_string(),
                "#5".to_string(),
                "\"abc".to_string(),
                "add r1, r1, é".to_string(),
            ];
            EvalInstr {
                text: rng.pick(&options).clone(),
                kind: EvalKind::Refused,
            }
        }
    }
}

pub fn gen_garbage(rng: &mut Rng) -> String {
    const LINES: [&str; 43] = [
        "frobnicate",
        "step 3",
        "step over",
        "break",
        "break foo",
        "b x",
        "move r1",
        "move r1 2 3",
        "move",
        "goto",
        "goto r1",
        "goto 1 2",
        "print 1 2",
        "p x19248",
        "p 70000",
        "p -x8001x",
        "si r0",
        "si 1 2",
        "si lab",
        "eval",
        "echo",
        "registers 1",
        "continue now",
        "ba ^-",
        "ba ^x",
        "g Foo+",
        "g Foo-x-1",
        "g 00x1",
        "g 0#2",
        "g #",
        "g --1",
        "m r1 +-3",
        "quit now",
        "exit 1",
        "reset all",
        "so 2",
        "é",
        "p 😀",
        "step é",
        "m r1 1é",
        "bl 3",
        "next",
        "jump x3000",
    ];
    if rng.chance(1, 10) {
        // Bytes that are not valid UTF-8 (each followed by ASCII, so that every one of them is
        // one malformed sequence): stray continuation bytes, invalid lead bytes, Latin-1 text
        let b = |rng: &mut Rng| crate::session::raw_byte_marker(*rng.pick(&[0x80u8, 0xA0, 0xB0, 0xBF, 0xC3, 0xE2, 0xF0, 0xFF, 0xFE]));
        return match rng.below(5) {
            0 => format!("{}", b(rng)),
            1 => format!("p {}r1", b(rng)),
            2 => format!("m r1 {} 5", b(rng)),
            3 => format!("{}tep", b(rng)),
            _ => format!("echo{} x q", b(rng)),
        };
    }
    if rng.chance(1, 14) {
        // A tab is not a blank of the command language, whatever the transport
        return rng
            .pick(&["move\tr1\t5", "break\tadd x3001", "step\tinto 2", "print\tr1", "goto\t^1", "m r1\t7"])
            .to_string();
    }
    if rng.chance(1, 14) {
        // Counts beyond 16 bits are rejected, not wrapped
        let count = *rng.pick(&["65536", "65537", "x10000", "x10003", "70000", "-32769", "131072", "#65536", "0x1ffff"]);
        return format!("{} {}", rng.pick(&["stepinto", "si", "step into", "s i", "STEPINTO"]), count);
    }
    if rng.chance(1, 12) {
        // A long token with multi-byte characters at assorted byte offsets (code that quotes or
        // shortens the offending text must cut at character boundaries)
        let n = 20 + rng.usize_below(50);
        let token: String = (0..n).map(|_| *rng.pick(&['a', 'Z', '9', '_', 'é', 'ü', '°', '→', '😀', 'x'])).collect();
        return match rng.below(5) {
            0 => token,
            1 => format!("print {}", token),
            2 => format!("move r1 {}", token),
            3 => format!("goto {}+1", token),
            _ => format!("break add {}", token),
        };
    }
    match rng.below(10) {
        0..=2 => invalid_integer_line(rng),
        3 | 4 => misspelled_name_line(rng),
        _ => rng.pick(&LINES).to_string(),
    }
}

/// `move r<k> <token>` where the token breaks the documented integer grammar in a known way.
fn invalid_integer_line(rng: &mut Rng) -> String {
    let digits = format!("{}", rng.below(200));
    let hex = format!("{:x}", rng.below(0x2000));
    let tok = match rng.below(20) {
        // Magnitudes around the limits of 32-bit arithmetic: far too large, must be rejected
        16 => rng.pick(&["2147483647", "2147483648", "2147483649", "4294967295", "4294967296", "99999999999", "-2147483648", "-2147483649"]).to_string(),
        17 => rng.pick(&["x7FFFFFFF", "x80000000", "xFFFFFFFF", "x100000000", "0xFFFFFFFFF", "-x80000001"]).to_string(),
        18 => rng.pick(&["o17777777777", "o20000000000", "o37777777777", "b1111111111111111111111111111111", "b11111111111111111111111111111111", "#2147483648"]).to_string(),
        19 => format!("{}", 2147483640u64 + rng.below(20)),
        0 => format!("--{}", digits),
        1 => format!("+-{}", digits),
        2 => format!("-x-{}", hex),
        3 => format!("+#+{}", digits),
        4 => format!("00x{}", hex),
        5 => format!("0#{}", digits),
        6 => format!("b10{}", 2 + rng.below(8)),
        7 => format!("o{}8", rng.below(8)),
        8 => format!("#{}a", digits),
        9 => "#".to_string(),
        10 => "-x".to_string(),
        11 => "0x".to_string(),
        12 => format!("x1{:04x}", rng.below(0x10000)),
        13 => format!("{}", 65536 + rng.below(100000)),
        14 => format!("-{}", 32769 + rng.below(30000)),
        _ => format!("{}_", digits),
    };
    let name = *rng.pick(&["move", "m", "MOVE", "M"]);
    format!("{} r{} {}", name, rng.below(8), tok)
}

/// A documented misspelling: must be rejected (the debugger only suggests the real name).
fn misspelled_name_line(rng: &mut Rng) -> String {
    if rng.chance(1, 6) {
        // Letters that are not ASCII but lower-case (or upper-case) to ASCII: KELVIN SIGN,
        // LATIN SMALL LETTER LONG S, dotless/dotted i
        return rng
            .pick(&["brea\u{212A} list", "brea\u{212A} add x3001", "brea\u{212A}list", "\u{212A}", "re\u{17F}et", "reg\u{131}sters", "qu\u{130}t", "\u{212A}ontinue"])
            .to_string();
    }
    const WORDS: [&str; 40] = [
        "con", "proceed", "get r1", "show r1", "display r1", "put r1", "set r1 1", "mov r1 1", "mv r1 1", "assign r1 1",
        "dump", "register", "regs", "jump x3000", "go x3000", "go-to x3000", "jsr x3000", "source", "src", "inspect",
        "run add r1 r1 #1", "exec add r1 r1 #1", "instr add r1 r1 #1", "restart", "refresh", "reboot", "halt", "end", "stop",
        "next", "step-over", "into", "stepin", "finish", "fin", "break-list", "blist", "badd x3000", "brm x3000", "step next",
    ];
    let word = *rng.pick(&WORDS);
    // Random letter case of the command word only
    let mut parts = word.splitn(2, ' ');
    let head: String = parts
        .next()
        .unwrap_or("")
        .chars()
        .map(|c| if rng.chance(1, 3) { c.to_ascii_uppercase() } else { c })
        .collect();
    match parts.next() {
        Some(rest) => format!("{} {}", head, rest),
        None => head,
    }
}

#[derive(Clone, Copy, Debug, PartialEq)]
pub enum EndStyle {
    /// End of input right after the last command.
    Eof,
    Quit,
    Exit,
}

pub fn gen_item(rng: &mut Rng, ctx: &Ctx, mix: &Mix) -> Cmd {
    let weights = [
        mix.step,
        mix.step_into,
        mix.step_out,
        mix.cont,
        mix.break_add,
        mix.break_remove,
        mix.break_list,
        mix.print,
        mix.registers,
        mix.assembly,
        mix.echo,
        mix.help,
        mix.mv,
        mix.goto,
        mix.eval,
        mix.reset,
        mix.garbage,
    ];
    match rng.weighted(&weights) {
        0 => Cmd::Step,
        1 => Cmd::StepInto(match rng.below(10) {
            0 => None,
            1 => Some(0),
            2 => Some(1),
            3 => Some(*rng.pick(&[300, 1000, 65535, 40000])),
            _ => Some(rng.range(2, 12)),
        }),
        2 => Cmd::StepOut,
        3 => Cmd::Continue,
        4 => Cmd::BreakAdd(gen_loc(rng, ctx, mix.refused_pct, true)),
        5 => Cmd::BreakRemove(gen_loc(rng, ctx, mix.refused_pct, true)),
        6 => Cmd::BreakList,
        7 => {
            if rng.chance(1, 3) {
                Cmd::Print(Target::Reg(rng.below(8) as u8))
            } else {
                Cmd::Print(Target::Mem(gen_loc(rng, ctx, mix.refused_pct, false)))
            }
        }
        8 => Cmd::Registers,
        9 => {
            if rng.chance(1, 3) {
                Cmd::Assembly(None)
            } else {
                Cmd::Assembly(Some(gen_loc(rng, ctx, mix.refused_pct, true)))
            }
        }
        10 if rng.chance(1, 12) => {
            // A very long command line whose tail looks like commands
            let mut text = "long".to_string();
            let n = *rng.pick(&[1000usize, 1000, 4080, 8180]) + rng.usize_below(200);
            while text.len() < n {
                let piece: &str = *rng.pick(&[" aaaa", " bb", " c", " x3000", " move r1 7", " z", " q"]);
                text.push_str(piece);
            }
            Cmd::Echo(text)
        }
        10 if rng.chance(1, 8) => Cmd::Echo(
            // Backslash sequences are ordinary characters of the command language
            rng.pick(&["first\\nmove r1 7", "a\\tb", "x\\", "\\n", "one\\nreset", "c:\\new\\table", "\\x41 \\n q"])
                .to_string(),
        ),
        10 => Cmd::Echo(
            rng.pick(&["hello", "a  b", "step", "x3000 ^ r1", "é!", "é é x", "grüü z", "ñ ñ c", "ü", "→→ s", "😀 q", "日本語 exit", "ééé reset"])
                .to_string(),
        ),
        11 => Cmd::Help,
        12 => {
            if rng.chance(2, 5) {
                Cmd::Move(Target::Reg(rng.below(8) as u8), gen_value(rng))
            } else {
                Cmd::Move(Target::Mem(gen_loc(rng, ctx, mix.refused_pct, false)), gen_value(rng))
            }
        }
        13 => Cmd::Goto(gen_loc(rng, ctx, mix.refused_pct, true)),
        14 => Cmd::Eval(gen_eval(rng, ctx)),
        15 => Cmd::Reset,
        _ => Cmd::Garbage(gen_garbage(rng)),
    }
}

pub fn gen_script(rng: &mut Rng, ctx: &Ctx, mix: &Mix, max_len: usize, end: EndStyle) -> Vec<Item> {
    let n = rng.usize_below(max_len + 1);
    let mut items: Vec<Item> = Vec::with_capacity(n + 1);
    // Listing breakpoints renders label and source text of each marked statement: mark the
    // statements whose text holds multi-byte characters now and then
    if mix.break_list > 0 && rng.chance(1, 2) {
        let offsets = ctx.program.offsets();
        let wide: Vec<u16> = ctx
            .program
            .stmts
            .iter()
            .zip(offsets.iter())
            .filter(|(s, _)| !s.text.is_ascii())
            .map(|(_, o)| ctx.program.origin().wrapping_add(*o as u16))
            .collect();
        if !wide.is_empty() {
            // (counted by the session report as probe:break_list_on_multibyte_statement)
            let addr = *rng.pick(&wide);
            items.push(Item {
                cmd: Cmd::BreakAdd(Loc::Abs(addr as i64)),
                spell: rng.next_u64(),
            });
            items.push(Item {
                cmd: Cmd::BreakList,
                spell: rng.next_u64(),
            });
        }
    }
    if mix.eval > 0 && !ctx.labels.is_empty() && rng.chance(1, 6) {
        // A subroutine jump whose target is the very next address
        let (label, addr) = rng.pick(&ctx.labels).clone();
        if addr > ctx.program.origin() {
            items.push(Item {
                cmd: Cmd::Goto(Loc::Label { name: label.clone(), off: -1 }),
                spell: rng.next_u64(),
            });
            items.push(Item {
                cmd: Cmd::Eval(EvalInstr {
                    text: format!("jsr {}", label),
                    kind: EvalKind::JumpLabel { label },
                }),
                spell: rng.next_u64(),
            });
        }
    }
    if mix.step > 0 && mix.break_add > 0 && mix.cont > 0 && rng.chance(1, 5) {
        // Run to a call site (preferably one that sits inside a subroutine, or whose callee
        // does not return to the word after the call) and step over it there
        let offsets = ctx.program.offsets();
        let sites: Vec<(u16, bool)> = ctx
            .program
            .stmts
            .iter()
            .zip(offsets.iter())
            .filter(|(s, _)| {
                let t = s.text.to_ascii_lowercase();
                t.starts_with("jsr ") || t.starts_with("jsrr ") || t.starts_with("call ")
            })
            .map(|(s, o)| (ctx.program.origin().wrapping_add(*o as u16), s.text.contains("Ia_")))
            .collect();
        // A slot the program overwrites after its first execution: pause there on the first and
        // on the second visit, then step
        let slots: Vec<u16> = ctx
            .program
            .stmts
            .iter()
            .zip(offsets.iter())
            .filter(|(s, _)| s.text == ".fill x0155")
            .map(|(_, o)| ctx.program.origin().wrapping_add(*o as u16))
            .collect();
        if !slots.is_empty() && rng.chance(1, 2) {
            let addr = *rng.pick(&slots);
            for cmd in [Cmd::BreakAdd(Loc::Abs(addr as i64)), Cmd::Continue, Cmd::Continue, Cmd::Step, Cmd::Step] {
                items.push(Item {
                    cmd,
                    spell: rng.next_u64(),
                });
            }
        } else if !sites.is_empty() {
            let special: Vec<u16> = sites.iter().filter(|s| s.1).map(|s| s.0).collect();
            let addr = if !special.is_empty() && rng.chance(2, 3) { *rng.pick(&special) } else { rng.pick(&sites).0 };
            for cmd in [Cmd::BreakAdd(Loc::Abs(addr as i64)), Cmd::Continue, Cmd::Step] {
                items.push(Item {
                    cmd,
                    spell: rng.next_u64(),
                });
            }
        }
    }
    if mix.eval > 0 && mix.mv > 0 && mix.goto > 0 && !ctx.labels.is_empty() && rng.chance(1, 10) {
        // The instruction under the PC replaced, by an evaluated store, with a HALT (or with a
        // subroutine call): whatever the debugger remembers about that address is stale now
        let (label, addr) = rng.pick(&ctx.labels).clone();
        if ctx.code_addrs.contains(&addr) {
            let reg = 1 + rng.below(5) as u8;
            let word: i64 = *rng.pick(&[0xF025i64, 0xF025, 0x4100, 0xC1C0]);
            for cmd in [
                Cmd::Goto(Loc::Label { name: label.clone(), off: 0 }),
                Cmd::Move(Target::Reg(reg), word),
                Cmd::Eval(EvalInstr {
                    text: format!("st r{}, {}", reg, label),
                    kind: EvalKind::LabelOp {
                        op: 0x3,
                        reg,
                        label: label.clone(),
                    },
                }),
            ] {
                items.push(Item {
                    cmd,
                    spell: rng.next_u64(),
                });
            }
        }
    }
    let mut break_addrs: Vec<i64> = Vec::new();
    // A breakpoint on the program's path, a second one a multiple of 16/64/256 words away
    // (anywhere in user space), the second one removed again: the first must still pause. Placed
    // at random positions of the script, in this order.
    let mut planted: Vec<(usize, Cmd)> = Vec::new();
    if mix.break_add > 0 && mix.break_remove > 0 && !ctx.code_addrs.is_empty() && rng.chance(1, 5) {
        let on_path = *rng.pick(&ctx.code_addrs) as i64;
        let step = *rng.pick(&[64i64, 64, 128, 16, 256, 1024]);
        let lo = ctx.origin().max(0x3000);
        let mut others: Vec<i64> = Vec::new();
        for k in 1..8 {
            for cand in [on_path + k * step, on_path - k * step] {
                if cand >= lo && cand <= 0xFDFF {
                    others.push(cand);
                }
            }
        }
        if !others.is_empty() {
            let other = *rng.pick(&others);
            let mut at: Vec<usize> = (0..3).map(|_| rng.usize_below(n + 1)).collect();
            at.sort();
            planted.push((at[0], Cmd::BreakAdd(Loc::Abs(on_path))));
            planted.push((at[1], Cmd::BreakAdd(Loc::Abs(other))));
            planted.push((at[2], Cmd::BreakRemove(Loc::Abs(other))));
        }
    }
    for position in 0..n {
        for (at, cmd) in &planted {
            if *at == position {
                items.push(Item {
                    cmd: cmd.clone(),
                    spell: rng.next_u64(),
                });
            }
        }
        let mut cmd = gen_item(rng, ctx, mix);
        // Breakpoints a multiple of 64 (or 16, 256) words apart from an earlier one: containers
        // that summarise addresses confuse exactly those
        if let Cmd::BreakAdd(loc) | Cmd::BreakRemove(loc) = &mut cmd {
            if let Loc::Abs(a) = loc {
                if !break_addrs.is_empty() && rng.chance(1, 4) {
                    let base = *rng.pick(&break_addrs);
                    let step = *rng.pick(&[64i64, 64, 128, 16, 256]);
                    let cand: Vec<i64> = ctx
                        .code_addrs
                        .iter()
                        .map(|c| *c as i64)
                        .filter(|c| *c != base && (*c - base) % step == 0)
                        .collect();
                    if !cand.is_empty() {
                        *a = *rng.pick(&cand);
                    }
                }
                break_addrs.push(*a);
            }
        }
        // Biased placement: right after an evaluation (which shares the symbol table with the
        // location parser), a write through a label - the one the evaluated text names, if any
        let mut follow_up: Option<Cmd> = None;
        if let Cmd::Eval(e) = &cmd {
            if !ctx.labels.is_empty() && rng.chance(1, 3) {
                let named = ctx
                    .labels
                    .iter()
                    .find(|l| e.text.split(|c: char| !(c.is_alphanumeric() || c == '_')).any(|w| w == l.0));
                let (name, _) = named.unwrap_or_else(|| rng.pick(&ctx.labels)).clone();
                let loc = Loc::Label {
                    name,
                    off: if rng.chance(1, 2) { 0 } else { rng.range(-3, 3) },
                };
                let mut choices: Vec<Cmd> = Vec::new();
                if mix.mv > 0 {
                    choices.push(Cmd::Move(Target::Mem(loc.clone()), gen_value(rng)));
                }
                if mix.break_add > 0 {
                    choices.push(Cmd::BreakAdd(loc.clone()));
                }
                if mix.goto > 0 {
                    choices.push(Cmd::Goto(loc.clone()));
                }
                if !choices.is_empty() {
                    follow_up = Some(rng.pick(&choices).clone());
                }
            }
        }
        items.push(Item {
            cmd,
            spell: rng.next_u64(),
        });
        if let Some(cmd) = follow_up {
            items.push(Item {
                cmd,
                spell: rng.next_u64(),
            });
        }
    }
    for (at, cmd) in &planted {
        if *at >= n {
            items.push(Item {
                cmd: cmd.clone(),
                spell: rng.next_u64(),
            });
        }
    }
    if mix.garbage > 0 && rng.chance(1, 40) {
        // A long run of rejected lines in a row (a wrong file pasted into the debugger), and a
        // command with an effect right behind it
        let at = rng.usize_below(items.len() + 1);
        let run = 18 + rng.usize_below(30);
        let mut burst: Vec<Item> = (0..run)
            .map(|_| Item {
                cmd: Cmd::Garbage(gen_garbage(rng)),
                spell: rng.next_u64(),
            })
            .collect();
        if mix.mv > 0 {
            burst.push(Item {
                cmd: Cmd::Move(Target::Reg(rng.below(8) as u8), gen_value(rng)),
                spell: rng.next_u64(),
            });
        }
        items.splice(at..at, burst);
    }
    match end {
        EndStyle::Eof => {}
        EndStyle::Quit => items.push(Item {
            cmd: Cmd::Quit,
            spell: rng.next_u64(),
        }),
        EndStyle::Exit => items.push(Item {
            cmd: Cmd::Exit,
            spell: rng.next_u64(),
        }),
    }
    items
}
