//! The one source of randomness: xoshiro256** seeded through SplitMix64.
//! Every choice a run makes derives from one `u64`.

#[derive(Clone, Debug)]
pub struct Rng {
    s: [u64; 4],
}

pub fn splitmix(state: &mut u64) -> u64 {
    *state = state.wrapping_add(0x9E37_79B9_7F4A_7C15);
    let mut z = *state;
    z = (z ^ (z >> 30)).wrapping_mul(0xBF58_476D_1CE4_E5B9);
    z = (z ^ (z >> 27)).wrapping_mul(0x94D0_49BB_1331_11EB);
    z ^ (z >> 31)
}

/// FNV-1a, used to fold property names into seeds and to fingerprint event logs.
pub fn fnv(bytes: &[u8]) -> u64 {
    let mut h: u64 = 0xcbf2_9ce4_8422_2325;
    for b in bytes {
        h ^= *b as u64;
        h = h.wrapping_mul(0x0000_0100_0000_01B3);
    }
    h
}

/// Seed of run `index` of property `prop` under master seed `master`.
pub fn run_seed(master: u64, prop: &str, index: u64) -> u64 {
    let mut st = master ^ fnv(prop.as_bytes()).rotate_left(17) ^ index.wrapping_mul(0xD6E8_FEB8_6659_FD93);
    let a = splitmix(&mut st);
    let b = splitmix(&mut st);
    a ^ b.rotate_left(32)
}

impl Rng {
    pub fn new(seed: u64) -> Self {
        let mut st = seed;
        let s = [
            splitmix(&mut st),
            splitmix(&mut st),
            splitmix(&mut st),
            splitmix(&mut st),
        ];
        Rng { s }
    }

    pub fn next_u64(&mut self) -> u64 {
        let result = self.s[1].wrapping_mul(5).rotate_left(7).wrapping_mul(9);
        let t = self.s[1] << 17;
        self.s[2] ^= self.s[0];
        self.s[3] ^= self.s[1];
        self.s[1] ^= self.s[2];
        self.s[0] ^= self.s[3];
        self.s[2] ^= t;
        self.s[3] = self.s[3].rotate_left(45);
        result
    }

    /// Uniform in `0..n` (n > 0).
    pub fn below(&mut self, n: u64) -> u64 {
        debug_assert!(n > 0);
        // Multiply-shift; bias is negligible for the small n used here
        ((self.next_u64() as u128 * n as u128) >> 64) as u64
    }

    pub fn usize_below(&mut self, n: usize) -> usize {
        self.below(n as u64) as usize
    }

    /// Uniform in `lo..=hi`.
    pub fn range(&mut self, lo: i64, hi: i64) -> i64 {
        debug_assert!(lo <= hi);
        lo + self.below((hi - lo + 1) as u64) as i64
    }

    pub fn chance(&mut self, num: u64, den: u64) -> bool {
        self.below(den) < num
    }

    pub fn coin(&mut self) -> bool {
        self.next_u64() & 1 == 1
    }

    pub fn u16(&mut self) -> u16 {
        (self.next_u64() >> 48) as u16
    }

    pub fn pick<'a, T>(&mut self, items: &'a [T]) -> &'a T {
        &items[self.usize_below(items.len())]
    }

    /// Index drawn with the given weights.
    pub fn weighted(&mut self, weights: &[u32]) -> usize {
        let total: u64 = weights.iter().map(|w| *w as u64).sum();
        debug_assert!(total > 0);
        let mut x = self.below(total);
        for (i, w) in weights.iter().enumerate() {
            if x < *w as u64 {
                return i;
            }
            x -= *w as u64;
        }
        weights.len() - 1
    }

    /// A 16-bit value biased towards boundaries.
    pub fn interesting_u16(&mut self) -> u16 {
        const B: [u16; 14] = [
            0, 1, 2, 0x7F, 0x80, 0xFF, 0x100, 0x7FFF, 0x8000, 0x8001, 0xFDFF, 0xFE00, 0xFFFE, 0xFFFF,
        ];
        if self.chance(1, 2) {
            *self.pick(&B)
        } else {
            self.u16()
        }
    }

    pub fn fork(&mut self) -> Rng {
        Rng::new(self.next_u64())
    }
}
