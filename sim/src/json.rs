//! Minimal JSON value, writer and parser (ordered objects, integers kept exact).

use std::fmt::Write as _;

#[derive(Clone, Debug, PartialEq)]
pub enum J {
    Null,
    Bool(bool),
    Int(i64),
    Float(f64),
    Str(String),
    Arr(Vec<J>),
    Obj(Vec<(String, J)>),
}

impl J {
    pub fn obj() -> J {
        J::Obj(Vec::new())
    }
    pub fn set(mut self, key: &str, value: impl Into<J>) -> J {
        self.put(key, value);
        self
    }
    pub fn put(&mut self, key: &str, value: impl Into<J>) {
        if let J::Obj(items) = self {
            let value = value.into();
            if let Some(item) = items.iter_mut().find(|(k, _)| k == key) {
                item.1 = value;
            } else {
                items.push((key.to_string(), value));
            }
        }
    }
    pub fn get(&self, key: &str) -> Option<&J> {
        match self {
            J::Obj(items) => items.iter().find(|(k, _)| k == key).map(|(_, v)| v),
            _ => None,
        }
    }
    pub fn str(&self) -> Option<&str> {
        match self {
            J::Str(s) => Some(s),
            _ => None,
        }
    }
    pub fn int(&self) -> Option<i64> {
        match self {
            J::Int(i) => Some(*i),
            J::Float(f) => Some(*f as i64),
            _ => None,
        }
    }
    pub fn bool(&self) -> Option<bool> {
        match self {
            J::Bool(b) => Some(*b),
            _ => None,
        }
    }
    pub fn arr(&self) -> Option<&[J]> {
        match self {
            J::Arr(items) => Some(items),
            _ => None,
        }
    }
    pub fn get_str(&self, key: &str) -> Option<&str> {
        self.get(key).and_then(|v| v.str())
    }
    pub fn get_int(&self, key: &str) -> Option<i64> {
        self.get(key).and_then(|v| v.int())
    }
    pub fn get_bool(&self, key: &str) -> Option<bool> {
        self.get(key).and_then(|v| v.bool())
    }
    pub fn get_arr(&self, key: &str) -> Option<&[J]> {
        self.get(key).and_then(|v| v.arr())
    }

    pub fn to_string(&self) -> String {
        let mut out = String::new();
        self.write(&mut out, None, 0);
        out
    }
    pub fn to_pretty(&self) -> String {
        let mut out = String::new();
        self.write(&mut out, Some(1), 0);
        out.push('\n');
        out
    }

    fn write(&self, out: &mut String, indent: Option<usize>, depth: usize) {
        let nl = |out: &mut String, depth: usize| {
            if let Some(width) = indent {
                out.push('\n');
                for _ in 0..depth * width {
                    out.push(' ');
                }
            }
        };
        match self {
            J::Null => out.push_str("null"),
            J::Bool(b) => out.push_str(if *b { "true" } else { "false" }),
            J::Int(i) => {
                let _ = write!(out, "{}", i);
            }
            J::Float(f) => {
                if f.is_finite() {
                    let _ = write!(out, "{}", f);
                } else {
                    out.push_str("null");
                }
            }
            J::Str(s) => write_str(out, s),
            J::Arr(items) => {
                out.push('[');
                // Short scalar arrays stay on one line
                let scalar = items.iter().all(|i| !matches!(i, J::Arr(_) | J::Obj(_)));
                for (i, item) in items.iter().enumerate() {
                    if i > 0 {
                        out.push(',');
                        if scalar && indent.is_some() {
                            out.push(' ');
                        }
                    }
                    if !scalar {
                        nl(out, depth + 1);
                    }
                    item.write(out, indent, depth + 1);
                }
                if !scalar && !items.is_empty() {
                    nl(out, depth);
                }
                out.push(']');
            }
            J::Obj(items) => {
                out.push('{');
                for (i, (k, v)) in items.iter().enumerate() {
                    if i > 0 {
                        out.push(',');
                    }
                    nl(out, depth + 1);
                    write_str(out, k);
                    out.push(':');
                    if indent.is_some() {
                        out.push(' ');
                    }
                    v.write(out, indent, depth + 1);
                }
                if !items.is_empty() {
                    nl(out, depth);
                }
                out.push('}');
            }
        }
    }

    pub fn parse(text: &str) -> Result<J, String> {
        let mut p = Parser {
            s: text.as_bytes(),
            i: 0,
        };
        p.ws();
        let v = p.value()?;
        p.ws();
        if p.i != p.s.len() {
            return Err(format!("trailing data at byte {}", p.i));
        }
        Ok(v)
    }
}

fn write_str(out: &mut String, s: &str) {
    out.push('"');
    for c in s.chars() {
        match c {
            '"' => out.push_str("\\\""),
            '\\' => out.push_str("\\\\"),
            '\n' => out.push_str("\\n"),
            '\r' => out.push_str("\\r"),
            '\t' => out.push_str("\\t"),
            c if (c as u32) < 0x20 || c as u32 == 0x7f => {
                let _ = write!(out, "\\u{:04x}", c as u32);
            }
            c => out.push(c),
        }
    }
    out.push('"');
}

struct Parser<'a> {
    s: &'a [u8],
    i: usize,
}

impl Parser<'_> {
    fn ws(&mut self) {
        while self.i < self.s.len() && matches!(self.s[self.i], b' ' | b'\n' | b'\r' | b'\t') {
            self.i += 1;
        }
    }
    fn value(&mut self) -> Result<J, String> {
        self.ws();
        let Some(&c) = self.s.get(self.i) else {
            return Err("unexpected end".into());
        };
        match c {
            b'{' => {
                self.i += 1;
                let mut items = Vec::new();
                self.ws();
                if self.s.get(self.i) == Some(&b'}') {
                    self.i += 1;
                    return Ok(J::Obj(items));
                }
                loop {
                    self.ws();
                    let k = match self.value()? {
                        J::Str(s) => s,
                        _ => return Err("object key must be a string".into()),
                    };
                    self.ws();
                    if self.s.get(self.i) != Some(&b':') {
                        return Err(format!("expected ':' at {}", self.i));
                    }
                    self.i += 1;
                    let v = self.value()?;
                    items.push((k, v));
                    self.ws();
                    match self.s.get(self.i) {
                        Some(b',') => self.i += 1,
                        Some(b'}') => {
                            self.i += 1;
                            return Ok(J::Obj(items));
                        }
                        _ => return Err(format!("expected ',' or '}}' at {}", self.i)),
                    }
                }
            }
            b'[' => {
                self.i += 1;
                let mut items = Vec::new();
                self.ws();
                if self.s.get(self.i) == Some(&b']') {
                    self.i += 1;
                    return Ok(J::Arr(items));
                }
                loop {
                    items.push(self.value()?);
                    self.ws();
                    match self.s.get(self.i) {
                        Some(b',') => self.i += 1,
                        Some(b']') => {
                            self.i += 1;
                            return Ok(J::Arr(items));
                        }
                        _ => return Err(format!("expected ',' or ']' at {}", self.i)),
                    }
                }
            }
            b'"' => {
                self.i += 1;
                let mut out = String::new();
                loop {
                    let Some(&c) = self.s.get(self.i) else {
                        return Err("unterminated string".into());
                    };
                    self.i += 1;
                    match c {
                        b'"' => return Ok(J::Str(out)),
                        b'\\' => {
                            let Some(&e) = self.s.get(self.i) else {
                                return Err("bad escape".into());
                            };
                            self.i += 1;
                            match e {
                                b'n' => out.push('\n'),
                                b'r' => out.push('\r'),
                                b't' => out.push('\t'),
                                b'b' => out.push('\u{8}'),
                                b'f' => out.push('\u{c}'),
                                b'/' => out.push('/'),
                                b'\\' => out.push('\\'),
                                b'"' => out.push('"'),
                                b'u' => {
                                    let hex = std::str::from_utf8(&self.s[self.i..self.i + 4])
                                        .map_err(|_| "bad \\u")?;
                                    let mut code = u32::from_str_radix(hex, 16).map_err(|_| "bad \\u")?;
                                    self.i += 4;
                                    if (0xD800..0xDC00).contains(&code)
                                        && self.s.get(self.i) == Some(&b'\\')
                                        && self.s.get(self.i + 1) == Some(&b'u')
                                    {
                                        let hex2 = std::str::from_utf8(&self.s[self.i + 2..self.i + 6])
                                            .map_err(|_| "bad \\u")?;
                                        let low = u32::from_str_radix(hex2, 16).map_err(|_| "bad \\u")?;
                                        self.i += 6;
                                        code = 0x10000 + ((code - 0xD800) << 10) + (low - 0xDC00);
                                    }
                                    out.push(char::from_u32(code).unwrap_or('\u{FFFD}'));
                                }
                                _ => return Err("bad escape".into()),
                            }
                        }
                        _ => {
                            // Copy a whole UTF-8 sequence
                            let start = self.i - 1;
                            let len = match c {
                                0x00..=0x7f => 1,
                                0xc0..=0xdf => 2,
                                0xe0..=0xef => 3,
                                _ => 4,
                            };
                            let end = (start + len).min(self.s.len());
                            out.push_str(std::str::from_utf8(&self.s[start..end]).map_err(|_| "bad utf8")?);
                            self.i = end;
                        }
                    }
                }
            }
            b't' if self.s[self.i..].starts_with(b"true") => {
                self.i += 4;
                Ok(J::Bool(true))
            }
            b'f' if self.s[self.i..].starts_with(b"false") => {
                self.i += 5;
                Ok(J::Bool(false))
            }
            b'n' if self.s[self.i..].starts_with(b"null") => {
                self.i += 4;
                Ok(J::Null)
            }
            _ => {
                let start = self.i;
                while self.i < self.s.len()
                    && matches!(self.s[self.i], b'-' | b'+' | b'.' | b'e' | b'E' | b'0'..=b'9')
                {
                    self.i += 1;
                }
                let text = std::str::from_utf8(&self.s[start..self.i]).unwrap();
                if let Ok(i) = text.parse::<i64>() {
                    Ok(J::Int(i))
                } else if let Ok(f) = text.parse::<f64>() {
                    Ok(J::Float(f))
                } else {
                    Err(format!("bad value at byte {}", start))
                }
            }
        }
    }
}

impl From<bool> for J {
    fn from(v: bool) -> J {
        J::Bool(v)
    }
}
impl From<i64> for J {
    fn from(v: i64) -> J {
        J::Int(v)
    }
}
impl From<u64> for J {
    fn from(v: u64) -> J {
        J::Int(v as i64)
    }
}
impl From<usize> for J {
    fn from(v: usize) -> J {
        J::Int(v as i64)
    }
}
impl From<u32> for J {
    fn from(v: u32) -> J {
        J::Int(v as i64)
    }
}
impl From<i32> for J {
    fn from(v: i32) -> J {
        J::Int(v as i64)
    }
}
impl From<u16> for J {
    fn from(v: u16) -> J {
        J::Int(v as i64)
    }
}
impl From<f64> for J {
    fn from(v: f64) -> J {
        J::Float(v)
    }
}
impl From<&str> for J {
    fn from(v: &str) -> J {
        J::Str(v.to_string())
    }
}
impl From<String> for J {
    fn from(v: String) -> J {
        J::Str(v)
    }
}
impl<T: Into<J>> From<Vec<T>> for J {
    fn from(v: Vec<T>) -> J {
        J::Arr(v.into_iter().map(Into::into).collect())
    }
}
impl<T: Into<J>> From<Option<T>> for J {
    fn from(v: Option<T>) -> J {
        match v {
            Some(v) => v.into(),
            None => J::Null,
        }
    }
}
