//! File-descriptor level capture of stdout and stderr.
//!
//! lace prints through `print!`/`eprint!`/`println!`, some of it bypassing its own `Output` layer, so
//! the only seam that sees every byte the user would see is the descriptor itself. Descriptors 1
//! and 2 are pointed at two memfds once per process; after each run the new bytes are read back
//! and the files are truncated. Only one simulated run is in flight per process at any time.

use std::io::Write as _;
use std::os::fd::RawFd;

pub struct Capture {
    out_fd: RawFd,
    err_fd: RawFd,
    saved_out: RawFd,
    saved_err: RawFd,
}

fn memfd(name: &str) -> RawFd {
    let cname = std::ffi::CString::new(name).unwrap();
    let fd = unsafe { libc::memfd_create(cname.as_ptr(), 0) };
    assert!(fd >= 0, "memfd_create failed");
    fd
}

impl Capture {
    pub fn install() -> Capture {
        std::io::stdout().flush().ok();
        let saved_out = unsafe { libc::dup(1) };
        let saved_err = unsafe { libc::dup(2) };
        assert!(saved_out >= 0 && saved_err >= 0, "dup failed");
        let out_fd = memfd("lace-sim-out");
        let err_fd = memfd("lace-sim-err");
        unsafe {
            assert!(libc::dup2(out_fd, 1) >= 0);
            assert!(libc::dup2(err_fd, 2) >= 0);
        }
        Capture {
            out_fd,
            err_fd,
            saved_out,
            saved_err,
        }
    }

    fn drain(fd: RawFd) -> Vec<u8> {
        unsafe {
            let size = libc::lseek(fd, 0, libc::SEEK_CUR);
            let mut buf = vec![0u8; size.max(0) as usize];
            let mut done = 0usize;
            while done < buf.len() {
                let n = libc::pread(
                    fd,
                    buf[done..].as_mut_ptr() as *mut libc::c_void,
                    buf.len() - done,
                    done as libc::off_t,
                );
                if n <= 0 {
                    break;
                }
                done += n as usize;
            }
            buf.truncate(done);
            libc::ftruncate(fd, 0);
            libc::lseek(fd, 0, libc::SEEK_SET);
            buf
        }
    }

    /// Everything written to stdout and stderr since the previous call.
    pub fn take(&self) -> (Vec<u8>, Vec<u8>) {
        std::io::stdout().flush().ok();
        (Self::drain(self.out_fd), Self::drain(self.err_fd))
    }

    /// Point descriptors 1 and 2 back at the original stdout and stderr.
    pub fn restore(&self) {
        std::io::stdout().flush().ok();
        unsafe {
            libc::dup2(self.saved_out, 1);
            libc::dup2(self.saved_err, 2);
        }
    }

    /// Write to the process's original stdout.
    pub fn say(&self, text: &str) {
        unsafe {
            let bytes = text.as_bytes();
            let mut done = 0;
            while done < bytes.len() {
                let n = libc::write(
                    self.saved_out,
                    bytes[done..].as_ptr() as *const libc::c_void,
                    bytes.len() - done,
                );
                if n <= 0 {
                    break;
                }
                done += n as usize;
            }
        }
    }

    /// Write to the process's original stderr.
    pub fn complain(&self, text: &str) {
        unsafe {
            libc::write(
                self.saved_err,
                text.as_ptr() as *const libc::c_void,
                text.len(),
            );
        }
    }
}
