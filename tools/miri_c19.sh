#!/bin/sh
# Optional memory-safety tier for C19 (not part of the registered commands): N seeded watcher
# histories (default 16) executed under Miri, which reports any use of the reclaimed source text
# (StaticSource::reclaim) or other undefined behaviour in the assemble/reset/reclaim sequence.
# About 40 s for the build plus ~15 s per history.
set -u
cd /verif/sim || exit 2
N="${1:-16}"
SEED="${VERIF_SEED:-20261002}"
CARGO_NET_OFFLINE=true MIRIFLAGS="-Zmiri-disable-isolation" \
    cargo +nightly miri run --offline --target-dir /verif/sim/target/miri -- miri-c19 "$N" "$SEED" 2>&1 \
    | grep -v -E "^(warning|   |  *\||  *=|$)" | tail -40
