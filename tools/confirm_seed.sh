#!/bin/sh
# usage: tools/confirm_seed.sh <ID> <change-number> [round] [benign]
# Confirms an independently seeded change in its scratch worktree /tmp/wt_<ID>:
#   clean tree: demo exits 0; with patch: `cargo test --workspace --offline` passes and demo exits != 0.
# Prints one summary line; exit 0 iff all three hold.
set -u
ID="$1"; N="$2"; ROUND="${3:-1}"
if [ "$ROUND" = 8 ]; then WT="/tmp/w8_$ID"; DIR="/tmp/s8_$ID/change$N"; elif [ "$ROUND" = 7 ]; then WT="/tmp/w7_$ID"; DIR="/tmp/s7_$ID/change$N"; elif [ "$ROUND" = 6 ]; then WT="/tmp/w6_$ID"; DIR="/tmp/s6_$ID/change$N"; elif [ "$ROUND" = 5 ]; then WT="/tmp/w5_$ID"; DIR="/tmp/s5_$ID/change$N"; elif [ "$ROUND" = 4 ]; then WT="/tmp/w4_$ID"; DIR="/tmp/s4_$ID/change$N"; elif [ "$ROUND" = 3 ]; then WT="/tmp/w3_$ID"; DIR="/tmp/s3_$ID/change$N"; elif [ "$ROUND" = 2 ]; then WT="/tmp/w2_$ID"; DIR="/tmp/s2_$ID/change$N"; else WT="/tmp/wt_$ID"; DIR="/tmp/seed_$ID/change$N"; fi
export CARGO_NET_OFFLINE=true
cd "$WT" || exit 2
git checkout -q -- . && git clean -fdq -e target
[ -f "$DIR/demo.sh" ] && [ -f "$DIR/patch.diff" ] || { echo "$ID/$N missing files"; exit 2; }
chmod +x "$DIR/demo.sh"
timeout 900 "$DIR/demo.sh" "$WT" >"$DIR/.clean.log" 2>&1; CLEAN=$?
git checkout -q -- . && git clean -fdq -e target
git apply "$DIR/patch.diff" || { echo "$ID/$N patch does not apply"; exit 2; }
cargo test --workspace --offline >"$DIR/.test.log" 2>&1; TEST=$?
timeout 900 "$DIR/demo.sh" "$WT" >"$DIR/.patched.log" 2>&1; PATCHED=$?
git checkout -q -- . && git clean -fdq -e target
RESULT=ok
if [ "${4:-}" = benign ]; then
    # A change that keeps the property: the demonstration passes on both trees
    [ "$CLEAN" = 0 ] && [ "$TEST" = 0 ] && [ "$PATCHED" = 0 ] || RESULT=REJECT
else
    [ "$CLEAN" = 0 ] && [ "$TEST" = 0 ] && [ "$PATCHED" != 0 ] || RESULT=REJECT
fi
echo "$ID/change$N demo_clean=$CLEAN tests_with_patch=$TEST demo_patched=$PATCHED => $RESULT"
[ "$RESULT" = ok ]
