#!/bin/sh
# Determinism selftest (DESIGN.md 7.1): for every check, N seeded runs are executed twice in
# separate processes, once with 16 workers and once with 3; the event-log fingerprints printed
# in the summary line (XOR over all runs of a per-run hash of everything observed) must be
# identical. Also repeated under a second master seed. Exit 0 iff all fingerprints agree.
set -u
cd /verif || exit 2
./check build >/dev/null 2>&1 || { echo "build failed"; exit 2; }
N="${1:-2000}"
BAD=0
for ID in C03 C06 C08 C09 C10 C11 C12 C13 C14 C15 C16 C19 C20; do
    case "$ID" in C06|C08) RUNS=$((N / 50 + 8)) ;; *) RUNS=$N ;; esac
    for SEED in 20261002 7; do
        A="$(VERIF_SEED=$SEED VERIF_RUNS=$RUNS VERIF_WORKERS=16 sim/target/debug/lace-sim check $ID quick 2>&1 | grep '^summary' | sed 's/.*fingerprint=//')"
        B="$(VERIF_SEED=$SEED VERIF_RUNS=$RUNS VERIF_WORKERS=3 sim/target/debug/lace-sim check $ID quick 2>&1 | grep '^summary' | sed 's/.*fingerprint=//')"
        if [ -n "$A" ] && [ "$A" = "$B" ]; then
            echo "same     $ID seed=$SEED runs=$RUNS fingerprint=$A"
        else
            echo "DIFFERS  $ID seed=$SEED runs=$RUNS 16-workers=$A 3-workers=$B"
            BAD=1
        fi
    done
done
exit $BAD
