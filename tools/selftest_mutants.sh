#!/bin/sh
# Sensitivity selftest: every mutant in /verif/mutants/<ID>_*.patch (and every kept seeded
# change /verif/seeded/*/patch.diff, property from meta.json) must make that property's quick
# check exit 1 (changes whose meta.json says "expected": "silent" must leave it at exit 0), and
# the unchanged tree must give exit 0. Applies patches to /repo's working tree
# one at a time and always restores it. Usage: tools/selftest_mutants.sh [pattern]
set -u
cd /verif || exit 2
PATTERN="${1:-}"
FAIL=0
for P in mutants/*.patch; do
    case "$P" in *"$PATTERN"*) ;; *) continue ;; esac
    ID="$(basename "$P" | cut -d_ -f1)"
    LINE="$(tools/try_patch.sh "/verif/$P" "$ID" 2>&1 | tail -1)"
    case "$LINE" in
        *"exit=1 "*) printf "%s\n" "caught   $P :: $LINE" ;;
        *) printf "%s\n" "MISSED   $P :: $LINE"; FAIL=1 ;;
    esac
done
for D in seeded/*/; do
    [ -f "$D/patch.diff" ] || continue
    case "$D" in *"$PATTERN"*) ;; *) continue ;; esac
    ID="$(python3 -c "import json,sys; m=json.load(open('$D/meta.json')); print(m.get('check_property', m['property']))" 2>/dev/null)"
    [ -n "$ID" ] || continue
    EXPECT="$(python3 -c "import json; print(json.load(open('$D/meta.json')).get('expected', 'caught'))" 2>/dev/null)"
    LINE="$(tools/try_patch.sh "/verif/$D/patch.diff" "$ID" 2>&1 | tail -1)"
    if [ "$EXPECT" = silent ]; then
        # A change that the check deliberately accepts (see why_silent in meta.json): no alarm
        case "$LINE" in
            *"exit=0 "*) printf "%s\n" "silent   $D :: $LINE" ;;
            *) printf "%s\n" "ALARM    $D :: $LINE"; FAIL=1 ;;
        esac
        continue
    fi
    case "$LINE" in
        *"exit=1 "*) printf "%s\n" "caught   $D :: $LINE" ;;
        *) printf "%s\n" "MISSED   $D :: $LINE"; FAIL=1 ;;
    esac
done
exit $FAIL
