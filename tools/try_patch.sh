#!/bin/sh
# usage: tools/try_patch.sh <patch.diff> <ID> [<ID>...]
# Applies a patch to /repo's working tree, runs the quick check of each property, and restores
# the tree. Prints one line per property: "<ID> exit=<code> <first VIOLATION line>".
# Never commits anything to /repo.
set -u
PATCH="$1"; shift
cd /repo || exit 2
if [ -n "$(git status --porcelain --untracked-files=no)" ]; then
    echo "refusing: /repo has uncommitted changes" >&2
    exit 2
fi
# Seeded patches were written against slightly older trees: fall back to less context
CTX=""
if ! git apply --check "$PATCH" 2>/dev/null; then
    if git apply -C1 --check "$PATCH" 2>/dev/null; then
        CTX="-C1"
    else
        echo "patch does not apply: $PATCH" >&2
        exit 2
    fi
fi
git apply $CTX "$PATCH"
trap 'cd /repo && git checkout -q -- . && git clean -fdq -- src tests' EXIT INT TERM
for ID in "$@"; do
    # Evidence of a run on a changed tree must not replace the committed evidence
    # The dev-profile batch first; the release-profile sample only if that found nothing (it
    # costs a release build of the changed tree)
    OUT="$(cd /verif && VERIF_NO_RELEASE_SAMPLE=1 VERIF_EVIDENCE_NAME="$ID.patched-tree.json" timeout 1500 ./check "$ID" quick 2>&1)"
    CODE=$?
    if [ "$CODE" = 0 ] && [ "${VERIF_NO_RELEASE_SAMPLE:-}" != 1 ]; then
        OUT="$(cd /verif && VERIF_EVIDENCE_NAME="$ID.patched-tree.json" timeout 1500 ./check "$ID" quick 2>&1)"
        CODE=$?
    fi
    FIRST="$(printf '%s\n' "$OUT" | grep -m1 '^VIOLATION' | cut -c1-260)"
    N="$(printf '%s\n' "$OUT" | grep -c '^VIOLATION')"
    [ -z "$FIRST" ] && FIRST="$(printf '%s\n' "$OUT" | grep -m1 -E '^(harness|summary)' | cut -c1-200)"
    printf '%s\n' "$ID exit=$CODE violations=$N :: $FIRST"
done
