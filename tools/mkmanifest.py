#!/usr/bin/env python3
"""Writes /verif/MANIFEST.json from the table below (single source of truth for the manifest)."""
import json, os, subprocess

VERIF = os.path.dirname(os.path.dirname(os.path.abspath(__file__)))

HOOK_COMMITS = ["b2d3fbf", "041d87c", "4c251be", "2fc1294", "d241bb0", "efc1640"]

CLAIMED = {
    "C03": dict(
        category="exploration",
        ref="DESIGN.md §5 C03, §3.2, §3.7.1",
        technique="deterministic simulation: seeded programs/images and input streams with injected end-of-input, real loader+VM in-process on simulated streams, refinement against a reference VM event by event",
        text="Seeded exploration (24k runs quick, 2M thorough) of structured terminating programs and raw word images at random origins, with input streams that end at arbitrary bytes; the real loader and VM run in-process and every load state, executed (pc,instr) event, output byte, consumed input byte, stop reason/status and the complete final machine state are compared with an independent reference VM. Sampling, not proof: a clean batch is evidence over the explored seeds.",
        note="Trusted: RefVm (ISA tables + README), the guarded hooks (typed unwind in front of process::exit, tick/execute events, simulated stdin), fd-level capture. Exit statuses are observed as unwinds in-process; world B ties them to real processes.",
    ),
    "C09": dict(
        category="exploration",
        ref="DESIGN.md §5 C09, §3.2",
        technique="deterministic simulation: seeded debugger schedules (pause points) over seeded programs, differential against the undebugged run of the same image on the real VM; 1 session in 30 repeats the differential at process level (shipped `lace run` vs shipped `lace debug`, real pipe)",
        text="Seeded exploration of (program, command script, transport, separators, end-of-input point); the debugger's commands are the schedule that decides at which instruction boundaries the program is paused. Verdict is model-free: program stdout, final registers/PC/CC/65,536 words and the process end must equal the undebugged run; a panic under transparent commands is a violation however the script would have gone on. One session in 30 also runs the shipped binary twice (`run` and `debug` with the script through --command / a real pipe, program input on the same stdin) and compares program output and exit status: the front-end arms run nowhere in-process. Sampling, not proof.",
        note="Trusted: the guarded hooks and fd capture; the undebugged real run as reference. Programs take input only where the script cannot eat it (all of the script in --command, or program input following the final quit on stdin); the simulated stdin hands out chunks of a size drawn per run.",
    ),
    "C10": dict(
        category="exploration",
        ref="DESIGN.md §5 C10, §3.7.2",
        technique="deterministic simulation: seeded command histories against the real debugger in-process, lockstep refinement check of every pause against a reference debugger on a reference VM",
        text="Every pause of every simulated session is compared (executed-instruction count, registers, PC, CC, all memory) with RefDbg, an executable statement of help.txt and the property; strict where documentation is explicit, adopted (and counted) where silent. Sampling, not proof.",
        note="Trusted: RefDbg/RefVm, hooks (pause snapshots, exec events). Histories bounded to 14 commands, programs to ~100 statements.",
    ),
    "C11": dict(
        category="exploration",
        ref="DESIGN.md §5 C11",
        technique="deterministic simulation: breakpoints added/removed between resumes of running loops (fault: late_breakpoint), lockstep check of pause points and breakpoint list against a reference set",
        text="Breakpoint list after load and at every pause equals the reference set (sorted, unique); every arrival at a marked address pauses before it executes, removed addresses never pause, re-arming across loop revisits, resets and gotos. Sampling, not proof.",
        note="Trusted: RefDbg, hooks. .break placement known to the generator by construction.",
    ),
    "C12": dict(
        category="exploration",
        ref="DESIGN.md §5 C12",
        technique="deterministic simulation: reset as crash-and-restart injected at arbitrary points of mutating histories; model-free comparison with the load snapshot at every pause",
        text="After arbitrary histories of execution, move, goto, eval and self-modifying stores, the state after reset and the debugger's saved copy at every pause equal the load snapshot in all 65,536 words and registers; continuation after reset follows the reference. Sampling, not proof.",
        note="Trusted: accessor to the saved initial state and the load snapshot.",
    ),
    "C13": dict(
        category="exploration",
        ref="DESIGN.md §5 C13",
        technique="deterministic simulation: frame-condition check between consecutive pause snapshots of seeded sessions with targets concentrated on address-space boundaries",
        text="History half decided by simulation: around every non-resuming command the set of changed locations is at most the named target with the requested value; out-of-user-space targets in all three spellings (incl. 16-bit overflow) change nothing; in-range targets take effect. The all-addresses half of the quantifier is only sampled (boundary-biased).",
        note="Trusted: RefDbg address arithmetic in unbounded integers; hooks.",
    ),
    "C15": dict(
        category="exploration",
        ref="DESIGN.md §5 C15",
        technique="deterministic simulation: eval issued at PCs reached by seeded stepping/goto histories, effect compared with the reference VM executing the instruction at that PC",
        text="History half decided: eval of register/immediate/base+offset forms, label operands before and after the PC, register jumps, output traps and stack instructions at arbitrary reachable PCs equals RefVm; refused forms change nothing and never end the session. Literal PC offsets and link values not generated (left unspecified by the property).",
        note="Trusted: RefVm, generator-known encodings; far labels adopted.",
    ),
    "C16": dict(
        category="exploration",
        ref="DESIGN.md §5 C16",
        technique="deterministic simulation with a simulated clock (run-loop ticks): online no-spin monitor and bounded-liveness budget once the command stream has ended",
        text="Bounded liveness: never more than 24 idle ticks in a row, session ends within 4*(instructions+commands)+64 ticks of the simulated clock, no panic when resuming at PC=0xFFFF / outside user space / on HALT; sessions that leave the run loop altogether (a reader that loops, a command that loops) are cut by a wall-clock and memory guard and reported; 1 session in 50 also runs in the shipped binary with the whole script in --command and a standard input that is a directory, closed or /dev/null, and must end. Sampling, not proof.",
        note="Trusted: tick hook = one run-loop iteration; RefDbg for the instruction count.",
    ),
    "C14": dict(
        category="exploration",
        ref="DESIGN.md §5 C14",
        technique="deterministic simulation: one seeded script delivered through every transport configuration (argument, stdin, split, simulated terminal; ; vs newline; end of input at a command boundary), differential between deliveries plus lockstep check of parse results against generator-known meaning",
        text="Transport half decided by simulation: all deliveries of a script must have identical meaning (accepted commands, rejected lines, pause snapshots, instruction counts, end, stdout, minimal-mode stderr). Grammar half sampled: commands in random documented spellings must parse to the generator-known meaning, lines broken in a known way must be rejected without effect, no delivery panics. One run in 40 is cross-checked through the shipped binary with a real pipe. The exhaustive short-string enumeration of the quantifier is not attempted.",
        note="Trusted: help.txt + parser doc comments as the grammar; Debug text of the real Command as observation; hooks. Known finding: `sudo`.",
    ),
    "C20": dict(
        category="exploration",
        ref="DESIGN.md §5 C20",
        technique="simulation of a reactive component on a simulated key device: exhaustive short key histories plus seeded long ones against a reference line editor after every key; the history file (the editor's only durable state) is real file I/O in a scratch cache directory with injected damage (blank line, invalid UTF-8, CRLF, no final newline, directory in its place, 1000+ lines); 1 run in 150 types its keys into the shipped binary on a real pseudo-terminal, paced by feedback, and compares every prompt redraw",
        text="Every key history of length <=3 (quick) / <=4 (thorough) over a 14-key alphabet from an empty and a non-empty history is enumerated, plus 60k/4M seeded histories of up to 47 keys; after every key the real editor's line, cursor, history focus and end-of-line equal RefEditor's, the cursor stays inside the line, nothing panics; the real read() path returns the reference's commands and history. One third of the seeded runs build the terminal with the real constructor on a prepared (and for half of them damaged) history file and check the loaded list and the bytes appended; one fifth add a whole debugger session (--command first, then typed lines with history recall); 1 in 150 runs the shipped `lace debug` on a pseudo-terminal (crossterm decoding, raw mode, prompt redraw with line text and cursor column after every key, exit status, history file; window widths 12-200 columns, several lines typed ahead in one write, a missing or impossible cache directory, a history file that cannot grow); 1 in 300 steps a program that reads keys through the debugger on the pseudo-terminal (program input between prompts).",
        note="Trusted: RefEditor (doc comments of terminal.rs, Vim word rules with adopted end-of-line corner); guarded constructors (with and without history file); XDG_CACHE_HOME pointed at a per-process scratch directory.",
    ),
    "C06": dict(
        category="exploration",
        ref="DESIGN.md §5 C06, §3.3",
        technique="deterministic simulation at the process boundary: compile and run as two real processes communicating through a file on a simulated disk that tears, truncates, extends and re-heads the file and injects short/interrupted/failing reads (LD_PRELOAD syscall shim); reference loader predicate and differential run",
        text="Per generated program: object bytes = origin + library words big-endian; run(.lc3) == run(.asm) in status and program output; every torn length of an image, appended bytes, images ending exactly at / one below / one above the top of memory are accepted or rejected as the reference loader says, never a crash; short reads and EINTR are transparent, EIO is a clean error; the same bytes offered as a named pipe, in pieces, load and run like the regular file. Sampling over programs; the torn-length sweep per image is complete.",
        note="Trusted: faultfs.so interposition, the guard-off binary built from the current tree, library emission as expected bytes.",
    ),
    "C08": dict(
        category="fault_enumeration",
        ref="DESIGN.md §5 C08, §3.3",
        technique="deterministic simulation with fault injection at the syscall seam: for each seeded program the single-fault space of `lace compile` is enumerated (assembly failure at every statement position; ENOSPC/EIO/EINTR/sticky/short write and a crash (SIGKILL) right before and right after every mutating file-system call; /dev/full; RLIMIT_FSIZE at every byte; uncreatable destinations) plus sampled double faults; for every fourth program two compile processes to one destination under a scheduler that grants their file-system calls one at a time (all 20 interleavings, plus seeded ones with a failing call); the reader of standard output leaving after the first status line",
        text="For every sampled program (half with a planted emission failure at a random statement k) every single fault of the compile process is injected, by ordinal of mutating call measured on a fault-free run, and the all-or-nothing predicate over (exit status, destination before/after) is evaluated; destination pre-existing or absent. Complete over single faults per program, sampled over programs and double faults.",
        note="Trusted: faultfs.so sees every file-system call on the destination directory; kernel-level faults (/dev/full, RLIMIT_FSIZE) confirm independently of the shim. A crash has no exit status: after SIGKILL the destination must be the old state or the complete new file (old-or-new, the usual crash-consistency reading; power loss, i.e. loss of unsynced data, is not modelled).",
    ),
    "C19": dict(
        category="exploration",
        ref="DESIGN.md §5 C19, §3.4",
        technique="deterministic simulation of the long-lived watcher: seeded histories of file versions with torn reads, duplicated, coalesced and reverted events executed through the watch closure's call sequence on one thread; each re-check compared with the same text on a fresh thread (every 8th history: a fresh process); 1 history in 250 also drives the shipped `lace watch` process on a real directory, paced by feedback, against fresh `lace check` processes",
        text="Histories of 2..14 re-checks (valid, failing in lexer/parser/backpatch/emission, duplicate labels, shifted labels, torn prefixes) on one thread with reset_state between them; every rendered result (origin, words or emission errors, spans, breakpoints, or the diagnostic text) equals a fresh assembly of the same text. The closure itself lives in the binary: for 1 history in 250 the shipped `lace watch` watches a scratch directory while the file is rewritten version by version, and the report it is left showing after each save must be the verdict of a fresh `lace check` (also for same-length versions saved under one modification time, and after a version on which the assembler crashes, if the watcher survives it). Sampling, not proof.",
        note="Trusted: fresh thread = fresh process (all globals thread-local); the closure's five calls are re-stated in the harness for world C; the real closure, inotify and debouncer run only in the 1-in-250 real-watcher histories, whose oracle is eventually-equal within a guard and which count a mismatch only if it repeats.",
    ),
}

NOT_APPLICABLE = {
    "C01": "pure function source text -> image: no stream, fault, schedule, history or clock in statement or quantifier; deciding it is input enumeration against a reference encoder, not simulation (DESIGN.md §5 C01)",
    "C02": "pure function (instruction word, machine state) -> machine state; the right tools are enumeration or a solver (DESIGN.md §5 C02)",
    "C04": "pure accept/reject function of one source text; boundary-value enumeration, no fault or history (DESIGN.md §5 C04)",
    "C05": "totality over all input strings is a fuzzing/bounded-proof question with no fault, schedule or history in it (DESIGN.md §5 C05)",
    "C07": "three-way differential of entry points on one input; no fault, stream or history (its watch half is decided under C19) (DESIGN.md §5 C07)",
    "C17": "pure function of the program text (spans, label addresses) (DESIGN.md §5 C17)",
    "C18": "pure function of (flag, program); no stream, fault or history (DESIGN.md §5 C18)",
}

PENDING = {}

def main():
    checks = []
    for pid, c in sorted(CLAIMED.items()):
        checks.append({
            "property_id": pid,
            "quick_cmd": f"./check {pid} quick",
            "thorough_cmd": f"./check {pid} thorough",
            "evidence_file": f"evidence/{pid}.json",
            "replay_cmd_template": f"./check {pid} --replay {{path}}",
            "engine": "lace-sim",
            "level_claimed": {"category": c["category"], "text": c["text"], "design_ref": c["ref"]},
            "level_note": c["note"],
            "technique": c["technique"],
        })
    na = [{"property_id": k, "reason": v} for k, v in sorted({**NOT_APPLICABLE, **PENDING}.items())]
    manifest = {
        "version": 1,
        "setup_cmd": "./check build",
        "hooks": {
            "guard": "lace_verif",
            "enable": "RUSTFLAGS=--cfg lace_verif (set in /verif/sim/.cargo/config.toml; the harness crate depends on /repo by path, so every check rebuilds lace from the current working tree with the hooks on)",
            "baseline_off_cmd": "cd /repo && cargo test --workspace --no-fail-fast --offline",
            "source_commits": HOOK_COMMITS,
            "add_only": True,
        },
        "engines": [
            {"name": "lace-sim", "path": "sim/", "serves_properties": sorted(CLAIMED.keys()),
             "kind_free_text": "deterministic simulator with fault injection: one seeded PRNG decides programs, scripts, transports, input streams and faults; real lace code in-process on simulated stdin/terminal/exit/tick seams (world A, C, D) or as the shipped binary under a syscall fault shim (world B); reference models as oracles"},
        ],
        "checks": checks,
        "not_applicable": na,
        "notes": "Entry point ./check <ID> <quick|thorough>; exit 0 held, 1 violation (VIOLATION line with replay file), 2 harness error. VERIF_SEED selects the master seed (default fixed). Known findings: known_findings.jsonl.",
    }
    with open(os.path.join(VERIF, "MANIFEST.json"), "w") as f:
        json.dump(manifest, f, indent=1)
        f.write("\n")

if __name__ == "__main__":
    main()
