#!/bin/sh
# usage: tools/eval_seeds.sh <ID>...   evaluates /tmp/seed_<ID>/change{1,2} with the property's quick check
cd /verif
for ID in "$@"; do
  for N in 1 2; do
    D=/tmp/seed_$ID/change$N
    [ -f $D/patch.diff ] || continue
    LINE="$(tools/try_patch.sh $D/patch.diff $ID 2>&1 | tail -1)"
    echo "$ID/change$N :: $LINE" | cut -c1-420
  done
done
