#!/bin/sh
# usage: tools/eval_seeds.sh <round> <ID>...   evaluates the round's seed directories of each ID with the
# property's quick check (round 1: /tmp/seed_<ID>/changeN, round 2: /tmp/s2_<ID>/changeN)
cd /verif
ROUND="$1"; shift
for ID in "$@"; do
  for N in 1 2 3; do
    if [ "$ROUND" = 8 ]; then D=/tmp/s8_$ID/change$N; elif [ "$ROUND" = 7 ]; then D=/tmp/s7_$ID/change$N; elif [ "$ROUND" = 6 ]; then D=/tmp/s6_$ID/change$N; elif [ "$ROUND" = 5 ]; then D=/tmp/s5_$ID/change$N; elif [ "$ROUND" = 4 ]; then D=/tmp/s4_$ID/change$N; elif [ "$ROUND" = 3 ]; then D=/tmp/s3_$ID/change$N; elif [ "$ROUND" = 2 ]; then D=/tmp/s2_$ID/change$N; else D=/tmp/seed_$ID/change$N; fi
    [ -f $D/patch.diff ] || continue
    LINE="$(tools/try_patch.sh $D/patch.diff $ID 2>&1 | tail -1)"
    printf '%s\n' "$ID/change$N :: $LINE" | cut -c1-420
  done
done
